"""C08 — tests run only on their own worker and are told where their setup lives."""

from __future__ import annotations

import ast

from .. import norm
from ..ctx import Ctx
from ..facts import PathView, is_call_named
from ..kinds import function_views, guard_rule, names_interesting
from ..paths import first_line
from ..repo import AnalysisError, call_name, calls_in
from . import nodetables as N
from . import traversal as T
from .c01 import pass_only_rule, pull_guards_rule, pull_locations_rule

NODE = "cartgraph/node.py"

EXPLANATION = (
    "Decides that the traversing worker is the one passed to every worker-relative call and marker, that the run, "
    "clean and rerun decisions raise for a foreign worker before any positive answer, that readiness and pick "
    "predicates contain the 'own worker or flat' atom, that setup locations and access parameters are drawn only "
    "from workers with PASS results, and that the avocado task is spawned with the started worker's spawner and "
    "session. Which worker ends up producing a state is schedule dependent and not decided."
)
DECIDED = [
    "C08.1 worker parameter provenance in the traversal functions (T.W1)",
    "C08.2 foreign-worker rows raise RuntimeError in run / clean / rerun decisions",
    "C08.3 the 'own worker or flat' atom in readiness tables and pick filters",
    "C08.4 only PASS results credit a worker (shared_result_worker_ids)",
    "C08.5 provenance of get_location values",
    "C08.6 access parameters: only nets_* keys, suffixed by the producing worker, unknown producer raises",
    "C08.7 run_test_task spawns with the started worker's spawner/session; missing worker or spawner raises first",
    "C08.8 a worker's cached remote session is keyed by host and port of its own login",
    "C08.9 results of replayed jobs (the producers of previous runs) are all kept: missing files raise, nothing is dropped or replaced",
    "C08.8p worker parameters are the net's own (no copy); C08.10 node/object lookup helpers agree (semantic tables)",
    'C08.8s every parsed worker gets the slot of its suffix and joins its swarm in the iteration that creates it',
]
NOT_DECIDED = ["which worker produces a state (schedule)"]
MIN_INSTANCES = 30


def access_params_rule(ctx: Ctx, rule: str) -> None:
    fref = f"{NODE}:TestNode.pull_locations"
    fn = ctx.repo.func(fref)
    views = function_views(ctx, fref, names_interesting({"startswith", "params", "split"}, extra=lambda n: isinstance(n, ast.Raise)))
    # the store copying worker parameters into the node
    n, problems = 0, []
    for v in views:
        for i, s in v.stmts(lambda s: isinstance(s, ast.Assign) and isinstance(s.targets[0], ast.Subscript)
                            and ast.unparse(s.targets[0].value) == "self.params" and isinstance(s.value, ast.Subscript)
                            and ast.unparse(s.value.value).endswith(".params") and ast.unparse(s.value.value) != "self.params"):
            n += 1
            key = ast.unparse(s.value.slice)
            wk = ast.unparse(s.value.value)[: -len(".params")]
            prem = v.premise(i, 0)
            req = norm.conj([
                v.formula_of(ast.parse(f"{key}.startswith('nets_')", mode="eval").body, i),
                v.formula_of(ast.parse(f"{wk}.id == wid", mode="eval").body, i),
            ])
            if not norm.implies(prem, req):
                problems.append((f"a worker parameter is copied without the nets_ filter or from a worker other than the producer: {first_line(s)}", v))
            # ... and nothing else filters them: every nets_ key of the producer is copied, whatever its value
            key_loop = [k for k, st in enumerate(v.steps) if st.kind == "iter" and st.extra == "next" and ast.unparse(st.node.iter) == f"{wk}.params"]
            if key_loop:
                # the conjunction of the conditions between the key loop and the copy is exactly "the key starts with nets_" (either polarity spelling)
                inner_f = norm.conj([v.cond_formula(k_) for k_ in range(key_loop[-1], i) if v.steps[k_].kind == "cond"])
                only = v.formula_of(ast.parse(f"{key}.startswith('nets_')", mode="eval").body, i)
                if not norm.equivalent(inner_f, only):
                    problems.append((f"access parameters of the producer are additionally filtered: {norm.show(inner_f)}", v))
            tkey = norm.concat_parts(v.canon(s.targets[0].slice, i))
            if tkey != [key, "'_'", "wid"]:
                problems.append((f"the copied parameter is not stored under <key>_<producing worker>: {tkey}", v))
    ctx.expect_sites(rule, n, 1, fref, True, "copy of a worker parameter into the node's parameters")
    ctx.record(rule, "PROV", fref, "self.params[<key>_<wid>] = worker.params[key] only for key.startswith('nets_') and worker.id == wid",
               not problems, {"paths": n, **({"path": problems[0][1].path.describe()} if problems else {})},
               "" if not problems else problems[0][0])
    # wid comes from the location being processed; shared location copies nothing; unknown producer raises
    wid_defs = [s for s in ast.walk(fn.node) if isinstance(s, ast.Assign) and "wid" in {x.id for x in ast.walk(s.targets[0]) if isinstance(x, ast.Name)}]
    ok = len(wid_defs) == 1 and ast.unparse(wid_defs[0].value).endswith(".split(':')")
    loc_loop = next((l for l in ast.walk(fn.node) if isinstance(l, ast.For) and any(x is wid_defs[0] for x in l.body)), None) if ok else None
    ok = ok and loc_loop is not None and ast.unparse(wid_defs[0].value) == f"{ast.unparse(loc_loop.target)}.split(':')"
    skip = [i for i in (loc_loop.body if loc_loop else []) if isinstance(i, ast.If) and ast.unparse(i.test) == "not wid"
            and len(i.body) == 1 and isinstance(i.body[0], ast.Continue)]
    wloops = [l for l in ast.walk(fn.node) if isinstance(l, ast.For) and l.orelse and any(isinstance(x, ast.Raise) for x in l.orelse)]
    ok_else = len(wloops) == 1 and T.PathEnumName(wloops[0].orelse) == "RuntimeError" and any(isinstance(b, ast.Break) for b in ast.walk(wloops[0]))
    ctx.record(rule + "b", "TABLE", fref, "wid = producer part of the location; shared location (empty wid) copies nothing; unknown producer -> RuntimeError",
               ok and len(skip) == 1 and ok_else, {}, "" if ok and len(skip) == 1 and ok_else else
               "the handling of shared / unknown setup locations in pull_locations changed")


def run_task_rule(ctx: Ctx, rule: str) -> None:
    fn = ctx.repo.func(T.RTT)
    views = function_views(ctx, T.RTT, names_interesting({"Worker", "Task", "started_worker", "spawner_handle", "get_session"},
                                                         extra=lambda n: isinstance(n, ast.Raise)), roles=["node"])
    # Worker(... spawner=node.started_worker.spawner ...)
    wcalls = [c for c in calls_in(fn.node) if call_name(c) == "Worker"]
    ok = len(wcalls) == 1
    sp = None
    if ok:
        sp = next((ast.unparse(k.value) for k in wcalls[0].keywords if k.arg == "spawner"), None)
        ok = sp == f"{fn.params()[1]}.started_worker.spawner"
    ctx.record(rule, "PROV", T.RTT, "avocado Worker(spawner=node.started_worker.spawner)", ok, {"found": sp},
               "" if ok else f"the test task is spawned with {sp} instead of the started worker's spawner")

    def required(v: PathView, i: int, c: ast.Call):
        return norm.conj([
            norm.neg(v.formula_of(ast.parse("node.started_worker is None", mode="eval").body, i)),
            norm.neg(v.formula_of(ast.parse("node.started_worker.spawner is None", mode="eval").body, i)),
        ])

    guard_rule(ctx, rule + "b", T.RTT, views, is_call_named("Task", "Worker"), required, min_sites=2,
               what="Task/Worker construction in run_test_task",
               describe_required="node.started_worker and its spawner are not None (RuntimeError raised otherwise)")
    handles = {}
    for node in ast.walk(fn.node):
        if isinstance(node, ast.If) and "spawner ==" in ast.unparse(node.test):
            cur = node
            while isinstance(cur, ast.If):
                kind = cur.test.comparators[0].value if isinstance(cur.test, ast.Compare) and isinstance(cur.test.comparators[0], ast.Constant) else "?"
                st = [s for s in cur.body if isinstance(s, ast.Assign) and ast.unparse(s.targets[0]).endswith(".spawner_handle")]
                handles[kind] = ast.unparse(st[0].value) if st else None
                cur = cur.orelse[0] if len(cur.orelse) == 1 else None
            break
    host_defs = [s for s in fn.node.body if isinstance(s, ast.Assign) and ast.unparse(s.targets[0]) == "host"]
    nd = fn.params()[1]
    ok_h = handles.get("remote") == f"{nd}.started_worker.get_session()" and handles.get("lxc") == "host" \
        and len(host_defs) == 1 and ast.unparse(host_defs[0].value).startswith(f"{nd}.params['nets_host']")
    ctx.record(rule + "c", "PROV", T.RTT, "spawner handle: remote -> the started worker's session; lxc -> the node's nets_host", ok_h, {"handles": handles},
               "" if ok_h else f"the spawner handle of the test task changed: {handles}")


def session_identity(ctx: Ctx, rule: str) -> None:
    """A worker's cached session is keyed by everything that identifies its connection end point."""
    fref = "cartgraph/worker.py:TestWorker.get_session"
    fn = ctx.repo.func(fref)
    ctx.touch(fref)
    logins = [c for c in calls_in(fn.node) if call_name(c) == "wait_for_login"]
    ok = len(logins) == 1
    detail = {}
    if ok:
        used = [a.slice.value for a in logins[0].args if isinstance(a, ast.Subscript) and ast.unparse(a.value) == "self.params" and isinstance(a.slice, ast.Constant)]
        endpoint = {k for k in used if k in ("nets_shell_host", "nets_shell_port")}
        gets = [c for c in calls_in(fn.node) if call_name(c) == "get" and ast.unparse(c.func.value) == "cache"]
        puts = [s for s in ast.walk(fn.node) if isinstance(s, ast.Assign) and isinstance(s.targets[0], ast.Subscript) and ast.unparse(s.targets[0].value) == "cache"]
        ok = len(gets) == 1 and len(puts) == 1 and ast.unparse(gets[0].args[0]) == ast.unparse(puts[0].targets[0].slice)
        if ok:
            keyname = ast.unparse(gets[0].args[0])
            defs = [s for s in ast.walk(fn.node) if isinstance(s, ast.Assign) and ast.unparse(s.targets[0]) == keyname]
            keyreads = set()
            for d in defs:
                for n in ast.walk(d.value):
                    if isinstance(n, ast.Subscript) and ast.unparse(n.value) == "self.params" and isinstance(n.slice, ast.Constant):
                        keyreads.add(n.slice.value)
            detail = {"login_endpoint": sorted(endpoint), "cache_key_reads": sorted(keyreads)}
            ok = len(defs) == 1 and endpoint == {"nets_shell_host", "nets_shell_port"} and endpoint <= keyreads
            ok = ok and ast.unparse(puts[0].value) == "session"
    ctx.record(rule, "PROV", fref, "the session cache key contains host AND port of the login (workers behind one gateway differ only by port)", ok, detail,
               "" if ok else f"workers that differ only in their shell port share one cached session: tests and state scans of one run in another's environment ({detail})")
    cache = [s for c in [ctx.repo.cls("cartgraph/worker.py:TestWorker")] for s in c.node.body if isinstance(s, ast.Assign) and ast.unparse(s.targets[0]) == "_session_cache"]
    ctx.record(rule + "c", "CONST", "cartgraph/worker.py:TestWorker", "_session_cache is one class-level dict shared by all workers (hence the key must identify the worker's end point)",
               len(cache) == 1 and ast.unparse(cache[0].value) == "{}", {}, "" if len(cache) == 1 else "the session cache changed")


def worker_params_alias(ctx: Ctx, rule: str) -> None:
    """The worker's connection parameters and the parameters its tests are composed from are ONE object: those of the worker's net."""
    W = "cartgraph/worker.py:TestWorker"
    bad = []
    for prop, want in (("params", "self.net.params"), ("restrs", "self.net.restrs")):
        f = ctx.repo.func(f"{W}.{prop}")
        ctx.touch(f.ref)
        rets = [r for r in ast.walk(f.node) if isinstance(r, ast.Return)]
        if len(rets) != 1 or rets[0].value is None or ast.unparse(rets[0].value) != want:
            bad.append(f"TestWorker.{prop} returns {[ast.unparse(r.value) if r.value else None for r in rets]} instead of {want}: slot customisation "
                       "(overwrite_with_slot) and the nets_* parameters every test of that worker is parsed with no longer agree")
    init = ctx.repo.func(f"{W}.__init__")
    ctx.touch(init.ref)
    p1 = init.params()[1]
    nets = [s_ for s_ in ast.walk(init.node) if isinstance(s_, ast.Assign) and ast.unparse(s_.targets[0]) == "self.net"]
    if len(nets) != 1 or ast.unparse(nets[0].value) != p1:
        bad.append(f"the worker's net is no longer the net object it was constructed from: {[ast.unparse(n.value) for n in nets]}")
    ow = ctx.repo.func(f"{W}.overwrite_with_slot")
    ctx.touch(ow.ref)
    keys = sorted(t.slice.value for s_ in ast.walk(ow.node) if isinstance(s_, ast.Assign) for t in s_.targets
                  if isinstance(t, ast.Subscript) and ast.unparse(t.value) == "self.params" and isinstance(t.slice, ast.Constant))
    want_keys = ["nets_gateway", "nets_host", "nets_shell_host", "nets_shell_port", "nets_spawner"]
    if keys != want_keys:
        bad.append(f"overwrite_with_slot writes {keys} (expected {want_keys}) through self.params")
    ctx.record(rule, "PROV", f"{W}.params", "worker.params / worker.restrs ARE the net's (no copy): what overwrite_with_slot writes (gateway, host, spawner, shell host/port) is what "
               "every test parsed for that net carries as nets_* and what pull_locations hands out as access parameters", not bad, {"slot_keys": keys}, "" if not bad else bad[0])


def worker_registration(ctx: Ctx, rule: str) -> None:
    """parse_workers: every worker it returns has been given the slot of its own suffix (its connection parameters) and has joined the
    swarm of its id (workers outside every swarm are never traversed with the others, never counted among the involved workers).  The
    creation `TestWorker(flat_net)` and the two registrations therefore belong to the same (innermost) loop iteration."""
    fref = "cartgraph/graph.py:TestGraph.parse_workers"
    fn = ctx.repo.func(fref)
    ctx.touch(fref)

    def innermost_loop(node):
        best = None
        for l in ast.walk(fn.node):
            if isinstance(l, (ast.For, ast.While)) and any(x is node for b in l.body for x in ast.walk(b)):
                if best is None or any(x is l for x in ast.walk(best)):
                    best = l
        return best

    created = [c for c in calls_in(fn.node) if call_name(c) == "TestWorker"]
    slots = [c for c in calls_in(fn.node) if call_name(c) == "overwrite_with_slot"]
    swarm = [s_ for s_ in ast.walk(fn.node) if isinstance(s_, (ast.Assign, ast.AugAssign)) and "TestSwarm.run_swarms[" in ast.unparse(s_.targets[0] if isinstance(s_, ast.Assign) else s_.target)]
    if len(created) != 1 or not slots or not swarm:
        raise AnalysisError(f"{fref}: worker creation / slot / swarm registration not found ({len(created)}, {len(slots)}, {len(swarm)})")
    home = innermost_loop(created[0])
    outside = [("the slot is applied", x) for x in slots if innermost_loop(x) is not home] + [("the swarm is joined", x) for x in swarm if innermost_loop(x) is not home]
    # also accepted: a later separate loop over the list of created workers
    acc = [ast.unparse(a.target) for a in ast.walk(fn.node) if isinstance(a, ast.AugAssign) and "test_worker" in ast.unparse(a.value)]
    outside = [(w, x) for w, x in outside if not (innermost_loop(x) is not None and isinstance(innermost_loop(x), ast.For) and ast.unparse(innermost_loop(x).iter) in acc)]
    ok = home is not None and not outside
    ctx.record(rule, "PAIR", fref, "every created worker gets the slot of its suffix and joins its swarm in the iteration that creates it", ok,
               {"registrations": len(slots) + len(swarm)},
               "" if ok else f"{outside[0][0] if outside else 'workers are registered'} outside the loop that creates the workers of a suffix: when a net id names several net variants "
               "(net6 = localhost net6, cluster1.net6, cluster2.net6) only the last worker gets the slot and joins a swarm; the others run with default connection parameters in no swarm")


def foreign_worker_rows(ctx: Ctx, rule: str) -> None:
    N.run_decision_table(ctx, rule + "r")
    N.clean_decision_table(ctx, rule + "c")
    N.should_rerun_table(ctx, rule + "q")


def run(ctx: Ctx) -> None:
    ctx.call(T.t_w1, "1/T.W1")
    ctx.call(foreign_worker_rows, "2")
    ctx.call(N.readiness_table, "3s", "setup")
    ctx.call(N.readiness_table, "3c", "cleanup")
    ctx.call(N.pick_agreement, "3ps", "setup")
    ctx.call(N.pick_agreement, "3pc", "cleanup")
    ctx.call(pass_only_rule, "4")
    ctx.call(pull_locations_rule, "5")
    ctx.call(pull_guards_rule, "5g")
    ctx.call(access_params_rule, "6")
    ctx.call(run_task_rule, "7")
    ctx.call(session_identity, "8")
    ctx.call(worker_params_alias, "8p")
    ctx.call(worker_registration, "8s")
    from . import graphrules as GR8

    # pull_locations names producers per object from the parent-side edge sets and from results seen through DIRECT bridges:
    # both ends of every edge carry every object; every pair of equivalent nodes is bridged (also in the update tool)
    ctx.call(GR8.edge_symmetry, "11")
    ctx.call(GR8.bridging_sites, "12")
    from . import c16 as C16

    ctx.call(C16.graph_lookups, "10")
    from .c10 import replay_loading

    ctx.call(replay_loading, "9")
    ctx.call(T.t_o1, "5o/T.O1")


G = "cartgraph/graph.py"
R = "plugins/runner.py"
MUTANTS = [
    ('slot-and-swarm-after-the-worker-loop', 'cartgraph/graph.py', '                if slot is not None:\n                    test_worker.overwrite_with_slot(slot)\n\n                if test_worker.swarm_id not in TestSwarm.run_swarms:\n                    TestSwarm.run_swarms[test_worker.swarm_id] = TestSwarm(\n                        test_worker.swarm_id, [test_worker]\n                    )\n                else:\n                    TestSwarm.run_swarms[test_worker.swarm_id].workers += [test_worker]\n', '            if slot is not None:\n                test_worker.overwrite_with_slot(slot)\n\n            if test_worker.swarm_id not in TestSwarm.run_swarms:\n                TestSwarm.run_swarms[test_worker.swarm_id] = TestSwarm(\n                    test_worker.swarm_id, [test_worker]\n                )\n            else:\n                TestSwarm.run_swarms[test_worker.swarm_id].workers += [test_worker]\n', '8s'),
    ("worker-params-copied", "cartgraph/worker.py", "        return self.net.params\n", "        return self.net.params.copy()\n", "8p"),
    ("all-worker-params-copied", NODE, "                            if not key.startswith(\"nets_\"):\n                                continue\n", "", "6"),
    ("params-from-any-worker", NODE, "                    if worker.id == wid:\n                        source_suffix", "                    if worker.id != \"\":\n                        source_suffix", "6"),
    ("foreign-worker-may-run", NODE, "        elif worker.id not in self.params[\"name\"]:\n            raise RuntimeError(f\"Worker {worker.id} should not try to run {self}\")\n", "", "2r"),
    ("spawner-of-first-worker", R, "            spawner=node.started_worker.spawner,", "            spawner=self.tasks[0].spawner if False else node.finished_worker.spawner,", "7"),
    ("worker-rebound", G, "        if test_node.is_occupied(worker):\n            return\n        test_node.started_worker = worker\n        if test_node.should_clean(worker):",
     "        if test_node.is_occupied(worker):\n            return\n        worker = test_node.finished_worker or worker\n        test_node.started_worker = worker\n        if test_node.should_clean(worker):", "1/T.W1"),
    ("pick-other-workers-nodes", NODE, "            n\n            for n in self.cleanup_nodes\n            if worker.id in n.params[\"name\"] or n.is_flat()\n        ]", "            n\n            for n in self.cleanup_nodes\n        ]", "3pc"),
    ("session-of-finished-worker", R, "task.spawner_handle = node.started_worker.get_session()", "task.spawner_handle = node.finished_worker.get_session()", "7c"),
    ("empty-access-params-skipped", NODE, "                            if not key.startswith(\"nets_\"):\n                                continue\n", "                            if not key.startswith(\"nets_\") or not worker.params[key]:\n                                continue\n", "6"),
    ("session-key-host-only", "cartgraph/worker.py", "address = self.params[\"nets_shell_host\"] + \":\" + self.params[\"nets_shell_port\"]", "address = self.params[\"nets_shell_host\"]", "8"),
    ("P-fstring-key", NODE, "self.params[f\"{key}{source_suffix}\"] = worker.params[key]", "self.params[key + source_suffix] = worker.params[key]", None),
]
