"""Structured path enumeration over a function body or a region of it.

A path is a list of steps and an exit kind.  Compound statements that contain nothing a rule
is interested in (and no escaping control flow) are collapsed into one opaque step, which keeps
the number of paths small without losing any fact a rule consumes.
"""

from __future__ import annotations

import ast
from dataclasses import dataclass, field
from typing import Callable

from . import norm
from .repo import AnalysisError

PURE_BUILTINS = {
    "len", "isinstance", "issubclass", "str", "int", "float", "bool", "set", "list", "dict",
    "tuple", "sorted", "min", "max", "any", "all", "sum", "abs", "round", "type", "repr",
    "enumerate", "zip", "range", "getattr", "hasattr", "id", "frozenset", "reversed", "iter",
}


@dataclass
class Step:
    kind: str  # stmt | cond | iter | with | except | opaque | excin | loopback
    node: ast.AST
    pol: bool | None = None
    extra: str | None = None
    tokens: frozenset | None = None

    def describe(self) -> str:
        if self.kind == "cond":
            return f"[{'T' if self.pol else 'F'}] {ast.unparse(self.node)}"
        if self.kind == "iter":
            return f"for {ast.unparse(self.node.target)} in {ast.unparse(self.node.iter)}: <{self.extra}>"
        if self.kind == "opaque":
            return f"<{type(self.node).__name__.lower()} … line {self.node.lineno}>"
        if self.kind == "with":
            return "with " + ", ".join(ast.unparse(i) for i in self.node.items)
        if self.kind == "except":
            return "except " + (ast.unparse(self.node.type) if self.node.type else "<bare>")
        if self.kind == "excin":
            return f"<exception in: {first_line(self.node)}>"
        if self.kind == "loopback":
            return "<loop back>"
        return first_line(self.node)


def first_line(node: ast.AST) -> str:
    txt = ast.unparse(node)
    line = txt.split("\n")[0]
    return line if len(line) <= 160 else line[:157] + "..."


@dataclass
class Path:
    steps: list[Step]
    exit: str  # fall | return | raise | continue | break
    exit_node: ast.AST | None = None

    def describe(self) -> list[str]:
        out = [s.describe() for s in self.steps]
        out.append(f"=> {self.exit}" + (f" {first_line(self.exit_node)}" if self.exit_node is not None else ""))
        return out


def contains_escape(node: ast.AST) -> bool:
    """Return/raise anywhere, or break/continue that escape the compound statement itself."""

    def rec(n: ast.AST, loop_depth: int) -> bool:
        if isinstance(n, (ast.FunctionDef, ast.AsyncFunctionDef, ast.Lambda, ast.ClassDef)):
            return False
        if isinstance(n, (ast.Return, ast.Raise)):
            return True
        if isinstance(n, (ast.Break, ast.Continue)):
            return loop_depth == 0
        if isinstance(n, (ast.For, ast.AsyncFor, ast.While)):
            for c in n.body:
                if rec(c, loop_depth + 1):
                    return True
            for c in n.orelse:
                if rec(c, loop_depth):
                    return True
            return False
        for c in ast.iter_child_nodes(n):
            if rec(c, loop_depth):
                return True
        return False

    if isinstance(node, (ast.For, ast.AsyncFor, ast.While)):
        return any(rec(c, 1) for c in node.body) or any(rec(c, 0) for c in node.orelse)
    return any(rec(c, 0) for c in ast.iter_child_nodes(node))


def has_nonpure_call(expr: ast.AST) -> bool:
    for n in ast.walk(expr):
        if isinstance(n, ast.Call):
            if isinstance(n.func, ast.Name) and n.func.id in PURE_BUILTINS:
                continue
            return True
        if isinstance(n, ast.Await):
            return True
    return False


def may_raise(stmt: ast.AST) -> bool:
    for n in ast.walk(stmt):
        if isinstance(n, (ast.Call, ast.Raise, ast.Subscript, ast.Await, ast.Assert)):
            return True
    return False


class PathEnum:
    """Enumerates the acyclic paths of a block (inner loops: zero or one iteration)."""

    def __init__(
        self,
        interesting: Callable[[ast.AST], bool] | None = None,
        max_paths: int = 40000,
        collapse: bool = True,
        prune: bool = True,
    ):
        self.interesting = interesting
        self.max_paths = max_paths
        self.collapse = collapse and interesting is not None
        self.prune = prune
        self.truncated = False

    # ------------------------------------------------------------ public
    def function_paths(self, fn: ast.AST) -> list[Path]:
        return self.block(fn.body)

    def block(self, stmts: list[ast.stmt]) -> list[Path]:
        paths: list[Path] = [Path([], "fall")]
        for s in stmts:
            if not any(p.exit == "fall" for p in paths):
                break
            sub = None
            new: list[Path] = []
            for p in paths:
                if p.exit != "fall":
                    new.append(p)
                    continue
                if sub is None:
                    sub = self.stmt(s)
                for q in sub:
                    if self.prune and not self._compatible(p.steps, q.steps):
                        continue
                    new.append(Path(p.steps + q.steps, q.exit, q.exit_node))
            paths = new
            if len(paths) > self.max_paths:
                raise AnalysisError(
                    f"path explosion (> {self.max_paths}) at line {getattr(s, 'lineno', '?')}"
                )
        return paths

    # ------------------------------------------------------------ pruning
    def _compatible(self, before: list[Step], after: list[Step]) -> bool:
        """False when a condition of `after` contradicts a still-valid earlier condition."""
        steps = before + after
        for j in range(len(before), len(steps)):
            st = steps[j]
            if st.kind != "cond":
                continue
            key = ast.dump(st.node)
            names = {n.id for n in ast.walk(st.node) if isinstance(n, ast.Name)}
            callful = has_nonpure_call(st.node)
            for i in range(j - 1, -1, -1):
                prev = steps[i]
                if prev.kind == "cond":
                    if prev.pol != st.pol and ast.dump(prev.node) == key:
                        return False
                    continue
                if names & step_assigned(prev):
                    break
                if callful and (prev.kind == "loopback" or any(has_nonpure_call(n) for n in step_own_nodes(prev))):
                    break
        return True

    # ------------------------------------------------------------ statements
    def _collapsible(self, s: ast.stmt) -> bool:
        if not self.collapse:
            return False
        if contains_escape(s):
            return False
        for n in ast.walk(s):
            if isinstance(n, (ast.stmt, ast.expr)) and self.interesting(n):
                return False
        return True

    def stmt(self, s: ast.stmt) -> list[Path]:
        if isinstance(s, (ast.If, ast.For, ast.AsyncFor, ast.While, ast.Try, ast.With, ast.AsyncWith)):
            if self._collapsible(s):
                return [Path([Step("opaque", s)], "fall")]
        if isinstance(s, ast.If):
            return self._if(s)
        if isinstance(s, (ast.For, ast.AsyncFor)):
            return self._for(s)
        if isinstance(s, ast.While):
            return self._while(s)
        if isinstance(s, ast.Try):
            return self._try(s)
        if hasattr(ast, "TryStar") and isinstance(s, ast.TryStar):
            raise AnalysisError(f"unmodelled construct try/except* at line {s.lineno}")
        if isinstance(s, (ast.With, ast.AsyncWith)):
            out = []
            for p in self.block(s.body):
                out.append(Path([Step("with", s)] + p.steps, p.exit, p.exit_node))
            return out
        # a conditional expression as the whole value of a statement is a branch: `x = a if c else b` == if c: x = a else: x = b
        lifted = self._lift_ifexp(s)
        if lifted is not None:
            return lifted
        if isinstance(s, ast.Return):
            return [Path([], "return", s)]
        if isinstance(s, ast.Raise):
            return [Path([], "raise", s)]
        if isinstance(s, ast.Continue):
            return [Path([], "continue", s)]
        if isinstance(s, ast.Break):
            return [Path([], "break", s)]
        if isinstance(s, ast.Match):
            raise AnalysisError(f"unmodelled construct match at line {s.lineno}")
        if isinstance(s, ast.Expr) and isinstance(s.value, ast.Constant):
            return [Path([], "fall")]  # docstrings and bare constants
        if isinstance(s, ast.Pass):
            return [Path([], "fall")]
        return [Path([Step("stmt", s)], "fall")]

    def _lift_ifexp(self, s: ast.stmt):
        import copy as _copy

        if isinstance(s, (ast.Assign, ast.AugAssign, ast.AnnAssign, ast.Return)) and isinstance(getattr(s, "value", None), ast.IfExp):
            ie = s.value
            out = []
            for pol, val in ((True, ie.body), (False, ie.orelse)):
                s2 = _copy.copy(s)
                s2.value = val
                head = Step("cond", ie.test, pol)
                for p in self.stmt(s2):
                    if self.prune and not self._compatible([head], p.steps):
                        continue
                    out.append(Path([head] + p.steps, p.exit, p.exit_node))
            return out
        return None

    def _if(self, s: ast.If) -> list[Path]:
        out = []
        for pol, body in ((True, s.body), (False, s.orelse)):
            head = Step("cond", s.test, pol)
            for p in self.block(body):
                if self.prune and not self._compatible([head], p.steps):
                    continue
                out.append(Path([head] + p.steps, p.exit, p.exit_node))
        return out

    def _for(self, s) -> list[Path]:
        out = []
        exhausted = Step("iter", s, extra="exhausted")
        orelse = self.block(s.orelse)
        # zero iterations
        for q in orelse:
            out.append(Path([exhausted] + q.steps, q.exit, q.exit_node))
        nxt = Step("iter", s, extra="next")
        body_paths = self.block(s.body)
        back = Step("loopback", s, tokens=self._continuing_tokens(s, body_paths))
        for p in body_paths:
            if p.exit in ("fall", "continue"):
                for q in orelse:
                    out.append(
                        Path([nxt] + p.steps + [back, exhausted] + q.steps, q.exit, q.exit_node)
                    )
            elif p.exit == "break":
                out.append(Path([nxt] + p.steps, "fall"))
            else:
                out.append(Path([nxt] + p.steps, p.exit, p.exit_node))
        return out

    @staticmethod
    def _continuing_tokens(loop, body_paths) -> frozenset:
        """Names (re)bound by iterations that go round again (summary of the unseen iterations)."""
        toks: set[str] = set()
        for p in body_paths:
            if p.exit in ("fall", "continue"):
                for st in p.steps:
                    toks |= step_assigned(st)
        if isinstance(loop, (ast.For, ast.AsyncFor)):
            for t in ast.walk(loop.target):
                if isinstance(t, ast.Name):
                    toks.add(t.id)
        return frozenset(toks)

    def _while(self, s: ast.While) -> list[Path]:
        out = []
        orelse = self.block(s.orelse)
        false = Step("cond", s.test, False)
        const_true = isinstance(s.test, ast.Constant) and bool(s.test.value)
        if not const_true:
            for q in orelse:
                out.append(Path([false] + q.steps, q.exit, q.exit_node))
        true = Step("cond", s.test, True)
        body_paths = self.block(s.body)
        back = Step("loopback", s, tokens=self._continuing_tokens(s, body_paths))
        for p in body_paths:
            if p.exit in ("fall", "continue"):
                if const_true:
                    # further iterations are not followed; the path is cut at the back edge
                    out.append(Path([true] + p.steps + [back], "fall"))
                    continue
                for q in orelse:
                    out.append(
                        Path([true] + p.steps + [back, false] + q.steps, q.exit, q.exit_node)
                    )
            elif p.exit == "break":
                out.append(Path([true] + p.steps, "fall"))
            else:
                out.append(Path([true] + p.steps, p.exit, p.exit_node))
        return out

    @staticmethod
    def _handler_names(h: ast.ExceptHandler) -> set[str] | None:
        if h.type is None:
            return None
        elts = h.type.elts if isinstance(h.type, ast.Tuple) else [h.type]
        return {ast.unparse(e).split(".")[-1] for e in elts}

    @staticmethod
    def _raised_name(r: ast.Raise) -> str | None:
        e = r.exc
        if e is None:
            return None
        if isinstance(e, ast.Call):
            e = e.func
        txt = ast.unparse(e)
        return txt.split(".")[-1]

    CATCH_ALL = {"Exception", "BaseException"}

    def _try(self, s: ast.Try) -> list[Path]:
        results: list[Path] = []
        body_paths = self.block(s.body)
        orelse = self.block(s.orelse) if s.orelse else [Path([], "fall")]
        handler_paths = [(h, self.block(h.body)) for h in s.handlers]

        def through_handlers(prefix: list[Step], raised: str | None, origin: ast.AST | None, explicit: bool):
            """Continue `prefix` (which ends in an exception) through the handlers."""
            outs: list[Path] = []
            definitely_caught = False
            for h, hp in handler_paths:
                names = self._handler_names(h)
                if explicit and raised is not None and names is not None:
                    if raised in names:
                        match, sure = True, True
                    elif names & self.CATCH_ALL:
                        match, sure = True, raised.endswith("Error") or raised.endswith("Exception")
                    else:
                        match, sure = False, False
                        # an unrelated named handler: a subclass relation cannot be excluded
                        # statically for foreign exception classes; be conservative only for
                        # package/builtin names that obviously differ
                else:
                    match, sure = True, names is None
                if not match:
                    continue
                for q in hp:
                    outs.append(Path(prefix + [Step("except", h)] + q.steps, q.exit, q.exit_node))
                if sure:
                    definitely_caught = True
                    break
            if not definitely_caught:
                outs.append(Path(prefix, "raise", origin))
            return outs

        after_try: list[Path] = []
        for p in body_paths:
            if p.exit == "fall":
                for q in orelse:
                    after_try.append(Path(p.steps + q.steps, q.exit, q.exit_node))
            elif p.exit == "raise" and s.handlers:
                after_try.extend(
                    through_handlers(p.steps, self._raised_name(p.exit_node), p.exit_node, True)
                )
            else:
                after_try.append(p)
        # implicit exceptions: raised while executing the i-th top-level statement of the body
        if s.handlers:
            for i, st in enumerate(s.body):
                if not may_raise(st):
                    continue
                prefixes = self.block(s.body[:i]) if i else [Path([], "fall")]
                for p in prefixes:
                    if p.exit != "fall":
                        continue
                    outs = through_handlers(p.steps + [Step("excin", st)], None, st, False)
                    # the "not caught" continuation of an implicit exception is not followed:
                    # it is an abnormal exit that exists with or without the try statement
                    after_try.extend(o for o in outs if not (o.exit == "raise" and o.exit_node is st))
        if len(after_try) > self.max_paths:
            raise AnalysisError(f"path explosion in try at line {s.lineno}")
        if not s.finalbody:
            return after_try
        fin = self.block(s.finalbody)
        for p in after_try:
            for f in fin:
                if f.exit == "fall":
                    results.append(Path(p.steps + f.steps, p.exit, p.exit_node))
                else:
                    results.append(Path(p.steps + f.steps, f.exit, f.exit_node))
        return results


# ---------------------------------------------------------------------- step helpers
def step_own_nodes(step: Step) -> list[ast.AST]:
    """AST nodes evaluated by the step itself (not the nested blocks of a compound head)."""
    n = step.node
    if step.kind == "cond":
        return [n]
    if step.kind == "iter":
        return [n.target, n.iter] if step.extra == "next" else []
    if step.kind == "with":
        out = []
        for item in n.items:
            out.append(item.context_expr)
            if item.optional_vars is not None:
                out.append(item.optional_vars)
        return out
    if step.kind in ("stmt", "opaque"):
        return [n]
    if step.kind == "excin":
        # an exception inside a compound statement: which of its parts ran is unknown, and its guarded
        # parts certainly did not run unguarded; only a simple statement's own events may have happened
        if isinstance(n, (ast.If, ast.For, ast.AsyncFor, ast.While, ast.With, ast.AsyncWith, ast.Try)):
            return []
        return [n]
    return []


def step_assigned(step: Step) -> set[str]:
    """Names (re)bound or mutated by the step."""
    n = step.node
    if step.kind == "cond":
        return norm.assigned_names(n)
    if step.kind == "iter":
        if step.extra != "next":
            return set()
        out: set[str] = set()
        for t in ast.walk(n.target):
            if isinstance(t, ast.Name):
                out.add(t.id)
        return out | norm.assigned_names(n.iter)
    if step.kind == "with":
        out = set()
        for item in n.items:
            out |= norm.assigned_names(item.context_expr)
            if item.optional_vars is not None:
                for t in ast.walk(item.optional_vars):
                    if isinstance(t, ast.Name):
                        out.add(t.id)
        return out
    if step.kind == "except":
        return {n.name} if n.name else set()
    if step.kind == "loopback":
        if step.tokens is not None:
            return set(step.tokens)
        out = set()
        for b in n.body:
            out |= norm.assigned_names(b)
        if isinstance(n, (ast.For, ast.AsyncFor)):
            for t in ast.walk(n.target):
                if isinstance(t, ast.Name):
                    out.add(t.id)
        return out
    return norm.assigned_names(n)


def step_rebound(step: Step) -> set[str]:
    """Plain names re-bound (not merely mutated in place) by the step."""
    toks = {t for t in step_assigned(step) if "." not in t and t != "?"}
    inplace: set[str] = set()
    for n in step_own_nodes(step):
        inplace |= norm._inplace_roots(n)
    if step.kind in ("iter", "loopback", "except", "with"):
        return toks
    return toks - inplace


# ---------------------------------------------------------------------- region helpers
def find_loops(fn: ast.AST, kind=(ast.While, ast.For, ast.AsyncFor)) -> list[ast.AST]:
    out = []

    def rec(n):
        for c in ast.iter_child_nodes(n):
            if isinstance(c, (ast.FunctionDef, ast.AsyncFunctionDef, ast.Lambda, ast.ClassDef)):
                continue
            if isinstance(c, kind):
                out.append(c)
            rec(c)

    rec(fn)
    return out


def step_calls(step: Step) -> list[ast.Call]:
    """Calls evaluated by a step itself (not by nested blocks of a compound head)."""
    from .repo import calls_in

    out: list[ast.Call] = []
    for n in step_own_nodes(step):
        out += calls_in(n)
    return out


def step_awaits(step: Step) -> list[ast.Await]:
    out = []
    for r in step_own_nodes(step):
        for x in ast.walk(r):
            if isinstance(x, (ast.FunctionDef, ast.AsyncFunctionDef, ast.Lambda)):
                continue
            if isinstance(x, ast.Await):
                out.append(x)
    return out
