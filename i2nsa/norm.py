"""Canonical boolean formulas over atoms, built from condition expressions.

Formula := ("atom", text) | ("not", f) | ("and", (f, ...)) | ("or", (f, ...)) | ("const", bool)
"""

from __future__ import annotations

import ast
import copy
import itertools

from .repo import AnalysisError

MUTATORS = {
    "append",
    "extend",
    "add",
    "remove",
    "pop",
    "popitem",
    "clear",
    "update",
    "insert",
    "discard",
    "setdefault",
    "sort",
    "reverse",
    "intersection_update",
    "difference_update",
    "symmetric_difference_update",
    "register",
}


class _Subst(ast.NodeTransformer):
    def __init__(self, env: dict[str, ast.AST], rename: dict[str, str], depth: int):
        self.env = env
        self.rename = rename
        self.depth = depth

    def visit_Name(self, node: ast.Name):
        if isinstance(node.ctx, ast.Load) and node.id in self.env and self.depth > 0:
            repl = copy.deepcopy(self.env[node.id])
            sub = _Subst(
                {k: v for k, v in self.env.items() if k != node.id},
                self.rename,
                self.depth - 1,
            )
            return sub.visit(repl)
        if node.id in self.rename:
            return ast.copy_location(ast.Name(id=self.rename[node.id], ctx=node.ctx), node)
        return node

    def visit_Lambda(self, node):
        return node

    def visit_arg(self, node):
        return node


def substitute(expr: ast.AST, env: dict[str, ast.AST] | None, rename: dict[str, str] | None,
               depth: int = 4) -> ast.AST:
    if not env and not rename:
        return expr
    return _Subst(env or {}, rename or {}, depth).visit(copy.deepcopy(expr))


def text(expr: ast.AST) -> str:
    return ast.unparse(expr)


def _is_len_call(e: ast.AST) -> ast.AST | None:
    if (
        isinstance(e, ast.Call)
        and isinstance(e.func, ast.Name)
        and e.func.id == "len"
        and len(e.args) == 1
        and not e.keywords
    ):
        return e.args[0]
    return None


def _const_num(e: ast.AST):
    if isinstance(e, ast.Constant) and isinstance(e.value, (int, float)) and not isinstance(
        e.value, bool
    ):
        return e.value
    return None


def _cmp_formula(left: ast.AST, op: ast.cmpop, right: ast.AST):
    # emptiness idioms
    for a, b, flip in ((left, right, False), (right, left, True)):
        arg = _is_len_call(a)
        num = _const_num(b)
        if arg is not None and num is not None:
            o = type(op)
            if flip:
                o = {ast.Lt: ast.Gt, ast.Gt: ast.Lt, ast.LtE: ast.GtE, ast.GtE: ast.LtE}.get(o, o)
            empty = ("atom", f"empty({text(arg)})")
            if (o is ast.Eq and num == 0) or (o is ast.Lt and num == 1) or (o is ast.LtE and num == 0):
                return empty
            if (o is ast.NotEq and num == 0) or (o is ast.Gt and num == 0) or (o is ast.GtE and num == 1):
                return ("not", empty)
    lt, rt = text(left), text(right)
    if isinstance(op, ast.Eq):
        if isinstance(left, ast.Constant) and not isinstance(right, ast.Constant):
            a, b = rt, lt
        else:
            a, b = lt, rt
        return ("atom", f"{a} == {b}")
    if isinstance(op, ast.NotEq):
        return ("not", _cmp_formula(left, ast.Eq(), right))
    if isinstance(op, ast.In):
        return ("atom", f"{lt} in {rt}")
    if isinstance(op, ast.NotIn):
        return ("not", ("atom", f"{lt} in {rt}"))
    if isinstance(op, ast.Is):
        return ("atom", f"{lt} is {rt}")
    if isinstance(op, ast.IsNot):
        return ("not", ("atom", f"{lt} is {rt}"))
    if isinstance(op, ast.Lt):
        return ("atom", f"{lt} < {rt}")
    if isinstance(op, ast.GtE):
        return ("not", ("atom", f"{lt} < {rt}"))
    if isinstance(op, ast.Gt):
        return ("atom", f"{rt} < {lt}")
    if isinstance(op, ast.LtE):
        return ("not", ("atom", f"{rt} < {lt}"))
    raise AnalysisError(f"unmodelled comparison operator {op!r}")


def formula(expr: ast.AST, env=None, rename=None, depth: int = 4):
    """Boolean formula of a condition expression (after local substitution and renaming)."""
    expr = substitute(expr, env, rename, depth)
    return _formula(expr)


def _formula(e: ast.AST):
    if isinstance(e, ast.BoolOp):
        kind = "and" if isinstance(e.op, ast.And) else "or"
        return (kind, tuple(_formula(v) for v in e.values))
    if isinstance(e, ast.UnaryOp) and isinstance(e.op, ast.Not):
        return ("not", _formula(e.operand))
    if isinstance(e, ast.Compare) and len(e.ops) == 1:
        # lift a conditional expression out of a comparison: a < (x if c else y)
        l, r = e.left, e.comparators[0]
        for side, other_first in ((l, False), (r, True)):
            if isinstance(side, ast.IfExp):
                def mk(v, side=side, other_first=other_first):
                    return ast.Compare(left=l if other_first else v, ops=e.ops,
                                       comparators=[v if other_first else r])
                c = _formula(side.test)
                return ("or", (("and", (c, _formula(mk(side.body)))),
                               ("and", (("not", c), _formula(mk(side.orelse))))))
        ln, rn = _const_num(l), _const_num(r)
        if ln is not None and rn is not None:
            op = type(e.ops[0])
            table = {ast.Eq: ln == rn, ast.NotEq: ln != rn, ast.Lt: ln < rn, ast.LtE: ln <= rn,
                     ast.Gt: ln > rn, ast.GtE: ln >= rn}
            if op in table:
                return ("const", table[op])
    if isinstance(e, ast.Compare):
        parts = []
        left = e.left
        for op, right in zip(e.ops, e.comparators):
            parts.append(_cmp_formula(left, op, right))
            left = right
        return parts[0] if len(parts) == 1 else ("and", tuple(parts))
    if isinstance(e, ast.Constant) and isinstance(e.value, bool):
        return ("const", e.value)
    if isinstance(e, ast.Constant) and e.value is None:
        return ("const", False)
    if isinstance(e, ast.IfExp):
        c, a, b = _formula(e.test), _formula(e.body), _formula(e.orelse)
        return ("or", (("and", (c, a)), ("and", (("not", c), b))))
    arg = _is_len_call(e)
    if arg is not None:
        return ("not", ("atom", f"empty({text(arg)})"))
    return ("atom", text(e))


def atoms_of(f) -> list[str]:
    out: list[str] = []

    def rec(g):
        if g[0] == "atom":
            if g[1] not in out:
                out.append(g[1])
        elif g[0] == "not":
            rec(g[1])
        elif g[0] in ("and", "or"):
            for x in g[1]:
                rec(x)

    rec(f)
    return out


def evaluate(f, val: dict[str, bool]) -> bool:
    k = f[0]
    if k == "atom":
        return val[f[1]]
    if k == "const":
        return f[1]
    if k == "not":
        return not evaluate(f[1], val)
    if k == "and":
        return all(evaluate(x, val) for x in f[1])
    if k == "or":
        return any(evaluate(x, val) for x in f[1])
    raise AnalysisError(f"bad formula {f!r}")


def neg(f):
    return f[1] if f[0] == "not" else ("not", f)


def conj(fs):
    fs = tuple(fs)
    if not fs:
        return ("const", True)
    return fs[0] if len(fs) == 1 else ("and", fs)


def disj(fs):
    fs = tuple(fs)
    if not fs:
        return ("const", False)
    return fs[0] if len(fs) == 1 else ("or", fs)


MAX_ATOMS = 16


def implies(premise, conclusion) -> bool:
    """Semantic implication by truth table over the atoms of both formulas."""
    names = atoms_of(("and", (premise, conclusion)))
    if len(names) > MAX_ATOMS:
        raise AnalysisError(f"too many atoms for a truth table: {len(names)}")
    for bits in itertools.product((False, True), repeat=len(names)):
        val = dict(zip(names, bits))
        if evaluate(premise, val) and not evaluate(conclusion, val):
            return False
    return True


def equivalent(f, g) -> bool:
    return implies(f, g) and implies(g, f)


def satisfiable(f) -> bool:
    names = atoms_of(f)
    if len(names) > MAX_ATOMS:
        raise AnalysisError(f"too many atoms for a truth table: {len(names)}")
    for bits in itertools.product((False, True), repeat=len(names)):
        if evaluate(f, dict(zip(names, bits))):
            return True
    return False


def show(f) -> str:
    k = f[0]
    if k == "atom":
        return f[1]
    if k == "const":
        return str(f[1])
    if k == "not":
        return f"not ({show(f[1])})"
    sep = " and " if k == "and" else " or "
    return "(" + sep.join(show(x) for x in f[1]) + ")"


def names_in(expr_or_text) -> set[str]:
    """What an expression reads: root names plus every dotted attribute path (``a``, ``a.b``, ``a.b.c``)."""
    if isinstance(expr_or_text, str):
        src = expr_or_text
        if src.startswith("empty(") and src.endswith(")"):
            src = src[6:-1]
        try:
            expr_or_text = ast.parse(src, mode="eval")
        except SyntaxError:
            return set()
    out: set[str] = set()
    for n in ast.walk(expr_or_text):
        if isinstance(n, ast.Name):
            out.add(n.id)
        elif isinstance(n, ast.Attribute):
            parts = []
            cur = n
            while isinstance(cur, ast.Attribute):
                parts.append(cur.attr)
                cur = cur.value
            if isinstance(cur, ast.Name):
                parts.append(cur.id)
                out.add(".".join(reversed(parts)))
    return out


def formula_names(f) -> set[str]:
    out: set[str] = set()
    for a in atoms_of(f):
        out |= names_in(a)
    return out


def _mutated_token(t: ast.AST, receiver: bool = False) -> str:
    """Token for an in-place mutation: ``x.a = v`` -> "x.a"; ``x.a[k] = v`` -> "x.a"; ``x[k] = v`` -> "x";
    ``x.a.append(v)`` -> "x.a".  Unresolvable receivers give "?"."""
    while isinstance(t, ast.Subscript):
        t = t.value
    parts = []
    cur = t
    while isinstance(cur, (ast.Attribute, ast.Subscript)):
        if isinstance(cur, ast.Attribute):
            parts.append(cur.attr)
        else:
            parts = []
        cur = cur.value
    if isinstance(cur, ast.Name):
        parts.append(cur.id)
        return ".".join(reversed(parts))
    return "?"


def assigned_names(node: ast.AST) -> set[str]:
    """Names (re)bound or mutated in place by a statement (excluding nested defs' bodies)."""
    out: set[str] = set()

    def target(t: ast.AST) -> None:
        if isinstance(t, ast.Name):
            out.add(t.id)
        elif isinstance(t, (ast.Tuple, ast.List)):
            for x in t.elts:
                target(x)
        elif isinstance(t, ast.Starred):
            target(t.value)
        elif isinstance(t, (ast.Subscript, ast.Attribute)):
            # in-place mutation: of the attribute path stored to, or of the subscripted object
            out.add(_mutated_token(t))

    def rec(n: ast.AST) -> None:
        if isinstance(n, (ast.FunctionDef, ast.AsyncFunctionDef, ast.ClassDef)):
            out.add(n.name)
            return
        if isinstance(n, ast.Lambda):
            return
        if isinstance(n, ast.Assign):
            for t in n.targets:
                target(t)
        elif isinstance(n, (ast.AugAssign, ast.AnnAssign)):
            target(n.target)
        elif isinstance(n, (ast.For, ast.AsyncFor)):
            target(n.target)
        elif isinstance(n, (ast.With, ast.AsyncWith)):
            for item in n.items:
                if item.optional_vars is not None:
                    target(item.optional_vars)
        elif isinstance(n, ast.Delete):
            for t in n.targets:
                target(t)
        elif isinstance(n, ast.NamedExpr):
            target(n.target)
        elif isinstance(n, ast.ExceptHandler) and n.name:
            out.add(n.name)
        elif isinstance(n, (ast.Import, ast.ImportFrom)):
            for a in n.names:
                out.add((a.asname or a.name).split(".")[0])
        elif isinstance(n, ast.Call) and isinstance(n.func, ast.Attribute) and n.func.attr in MUTATORS:
            out.add(_mutated_token(n.func.value, receiver=True))
        for c in ast.iter_child_nodes(n):
            rec(c)

    rec(node)
    return out


def concat_parts(expr: ast.AST) -> list[str]:
    """Flatten string building (f-strings, ``+``, ``%``-free) into parts: constants merged, other parts unparsed."""
    parts: list[tuple[str, str]] = []

    def rec(e: ast.AST) -> None:
        if isinstance(e, ast.JoinedStr):
            for v in e.values:
                rec(v)
        elif isinstance(e, ast.FormattedValue):
            if e.format_spec is None and e.conversion == -1:
                rec(e.value)
            else:
                parts.append(("e", ast.unparse(e)))
        elif isinstance(e, ast.BinOp) and isinstance(e.op, ast.Add):
            rec(e.left)
            rec(e.right)
        elif isinstance(e, ast.Constant) and isinstance(e.value, str):
            if parts and parts[-1][0] == "c":
                parts[-1] = ("c", parts[-1][1] + e.value)
            else:
                parts.append(("c", e.value))
        else:
            parts.append(("e", ast.unparse(e)))

    rec(expr)
    return [repr(v) if k == "c" else v for k, v in parts if not (k == "c" and v == "")]


def rebound_names(node: ast.AST) -> set[str]:
    """Plain names (re)bound by a statement: the subset of assigned_names() that is not an in-place mutation."""
    return {t for t in assigned_names(node) if "." not in t and t != "?"} - _inplace_roots(node)


def _inplace_roots(node: ast.AST) -> set[str]:
    """Plain names that are only mutated in place (x[k] = v, x.append(v)) and not re-bound by the statement."""
    bound: set[str] = set()
    inplace: set[str] = set()

    def target(t: ast.AST) -> None:
        if isinstance(t, ast.Name):
            bound.add(t.id)
        elif isinstance(t, (ast.Tuple, ast.List)):
            for x in t.elts:
                target(x)
        elif isinstance(t, ast.Starred):
            target(t.value)
        elif isinstance(t, (ast.Subscript, ast.Attribute)):
            tok = _mutated_token(t)
            if "." not in tok:
                inplace.add(tok)

    for n in ast.walk(node):
        if isinstance(n, (ast.FunctionDef, ast.AsyncFunctionDef, ast.ClassDef)):
            bound.add(n.name)
        elif isinstance(n, ast.Assign):
            for t in n.targets:
                target(t)
        elif isinstance(n, (ast.AugAssign, ast.AnnAssign)):
            target(n.target)
        elif isinstance(n, (ast.For, ast.AsyncFor)):
            target(n.target)
        elif isinstance(n, (ast.With, ast.AsyncWith)):
            for item in n.items:
                if item.optional_vars is not None:
                    target(item.optional_vars)
        elif isinstance(n, ast.NamedExpr):
            target(n.target)
        elif isinstance(n, ast.ExceptHandler) and n.name:
            bound.add(n.name)
        elif isinstance(n, ast.Delete):
            for t in n.targets:
                target(t)
        elif isinstance(n, ast.Call) and isinstance(n.func, ast.Attribute) and n.func.attr in MUTATORS:
            tok = _mutated_token(n.func.value, receiver=True)
            if "." not in tok:
                inplace.add(tok)
    return inplace - bound


def truth_set(test, subject: str, universe: list):
    """For a boolean expression built from comparisons of `subject` with constants: the members of `universe` for which it is
    true; None when the expression is not of that shape."""
    import ast as _ast

    def ev(n, s_):
        if isinstance(n, _ast.BoolOp):
            vals = [ev(v, s_) for v in n.values]
            if any(v is None for v in vals):
                return None
            return all(vals) if isinstance(n.op, _ast.And) else any(vals)
        if isinstance(n, _ast.UnaryOp) and isinstance(n.op, _ast.Not):
            v = ev(n.operand, s_)
            return None if v is None else not v
        if isinstance(n, _ast.Compare) and len(n.ops) == 1 and _ast.unparse(n.left) == subject:
            c = n.comparators[0]
            if isinstance(c, _ast.Constant):
                vals = c.value
            elif isinstance(c, (_ast.List, _ast.Tuple, _ast.Set)) and all(isinstance(e, _ast.Constant) for e in c.elts):
                vals = [e.value for e in c.elts]
            else:
                return None
            op = n.ops[0]
            if isinstance(op, _ast.Eq):
                return s_ == vals
            if isinstance(op, _ast.NotEq):
                return s_ != vals
            if isinstance(op, _ast.In):
                return s_ in vals
            if isinstance(op, _ast.NotIn):
                return s_ not in vals
        return None

    out = set()
    for s_ in universe:
        v = ev(test, s_)
        if v is None:
            return None
        if v:
            out.add(s_)
    return out
