"""F13 (C20): create / clean / collect drop the status of the step they reuse, so a failing root-state step does not
make the chain report failure (Manu.run treats their None as success).

Run from the root of a checkout: /venv/bin/python <path>/demo.py   (exit 1 = defect present)
"""
import os
import sys

sys.path.insert(0, os.getcwd())
sys.path.insert(1, os.path.join(os.getcwd(), "selftests", "isolation"))

import asyncio
import contextlib
import logging
import unittest.mock as mock

logging.disable(logging.CRITICAL)

import unittest_importer  # noqa: F401 (sets up the test suite paths)
from unittest_utils import DummyStateControl

import avocado_i2n

assert os.path.realpath(avocado_i2n.__file__).startswith(
    os.path.realpath(os.getcwd()) + os.sep
), f"wrong avocado_i2n imported: {avocado_i2n.__file__}"

from avocado_i2n import intertest_setup
from avocado_i2n.plugins.manu import Manu
from avocado_i2n.plugins.runner import TestRunner

RUNS = []
FAILING = set()


@contextlib.contextmanager
def new_job(config):
    job = mock.MagicMock()
    job.logdir = "."
    job.timeout = 60
    job.config = config
    job.result.tests = []
    loader, runner = config["graph"].l, config["graph"].r
    loader.logdir = job.logdir
    runner.job = job
    yield job


async def run_test_task(self, node):
    await asyncio.sleep(0.01)
    params = node.params
    execution = (params["vm_action"], params["vms"], params["nets"])
    RUNS.append(execution)
    status = "FAIL" if execution in FAILING else "PASS"
    test_id = type("Mock", (), {"uid": node.id_test.uid, "name": params["name"]})()
    self.job.result.tests.append(
        {"name": test_id, "status": status, "time_elapsed": "1", "logdir": "."}
    )


def run_chain(chain, vms, nets, failing):
    del RUNS[:]
    FAILING.clear()
    FAILING.update(failing)
    config = {
        "i2n.manu.params": [
            f"setup={chain}",
            f"vms={vms}",
            f"nets={nets}",
            "only_vm1=CentOS",
            "only_vm2=Win10",
        ]
    }
    return Manu().run(config)


def main():
    bad = []
    # reference: the plain state steps report their failure
    for step, action, extra in (("get", "get", "get_state_images=root"), ("set", "set", "set_state_images=root"), ("unset", "unset", "unset_state_images=root")):
        rc = run_chain(step, "vm1", "net1", [(action, "vm1", "net1")])
        print(f"chain {step!r} with a failing {action} step -> exit status {rc}")
        if rc != 1:
            bad.append((step, rc))
    for step, action in (("collect", "get"), ("create", "set"), ("clean", "unset")):
        rc_ok = run_chain(step, "vm1", "net1", [])
        ran = list(RUNS)
        rc = run_chain(step, "vm1", "net1", [(action, "vm1", "net1")])
        print(f"chain {step!r}: executions {ran}; all passing -> {rc_ok}; with the {action} step FAILING -> exit status {rc}")
        if rc != 1:
            bad.append((step, rc))
        rc2 = run_chain(step + ",check", "vm1", "net1", [(action, "vm1", "net1")])
        print(f"chain '{step},check' with the {action} step FAILING -> exit status {rc2} (later step still ran: {('check', 'vm1', 'net1') in RUNS})")
        if rc2 != 1:
            bad.append((step + ",check", rc2))
    if bad:
        print(f"VIOLATED: a failing step did not make the chain report failure: {bad}")
        sys.exit(1)
    print("OK: every failing step is reported by the chain")


if __name__ == "__main__":
    with contextlib.ExitStack() as stack:
        for patch in [
            mock.patch("avocado_i2n.intertest_setup.new_job", new_job),
            mock.patch("avocado_i2n.cartgraph.worker.remote.wait_for_login", mock.MagicMock()),
            mock.patch("avocado_i2n.cartgraph.node.door", DummyStateControl),
            mock.patch("avocado_i2n.cartgraph.worker.TestWorker.start", mock.MagicMock()),
            mock.patch("avocado_i2n.plugins.runner.SpawnerDispatcher", mock.MagicMock()),
            mock.patch.object(TestRunner, "run_test_task", run_test_task),
        ]:
            stack.enter_context(patch)
        main()
