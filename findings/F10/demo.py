"""F10 (C14): compare_local hashes only the first MiB, so a stale copy that differs later in the file is taken as matching
and the transfer is skipped: the destination is NOT byte-identical to the source afterwards.

Run from the root of a checkout of avocado-i2n:  /venv/bin/python <path>/demo.py   (exit 1 = property violated)
"""
import os
import sys
import tempfile

sys.path.insert(0, os.getcwd())
import avocado_i2n
from avocado_i2n.states.pool import TransferOps

assert os.path.abspath(avocado_i2n.__file__).startswith(os.getcwd()), avocado_i2n.__file__


class P(dict):
    def get_numeric(self, key, default=0):
        return int(self.get(key, default))


def main() -> int:
    bad = []
    with tempfile.TemporaryDirectory() as tmp:
        head = os.urandom(1048576)
        for name, op in (("download", TransferOps.download_local), ("upload", TransferOps.upload_local)):
            cache = os.path.join(tmp, name, "cache", "image.qcow2")
            pool = os.path.join(tmp, name, "pool", "image.qcow2")
            os.makedirs(os.path.dirname(cache))
            os.makedirs(os.path.dirname(pool))
            src, dst = (pool, cache) if name == "download" else (cache, pool)
            with open(src, "wb") as f:
                f.write(head + b"NEW CONTENT AFTER THE FIRST MiB")
            with open(dst, "wb") as f:
                f.write(head + b"old content after the first MiB")
            op(cache, pool, P(update_pool_timeout=5))
            same = open(src, "rb").read() == open(dst, "rb").read()
            print(f"{name}_local: destination byte-identical to the source afterwards: {same}")
            if not same:
                bad.append(name)
            print(f"   compare_local says 'already matching': {TransferOps.compare_local(cache, pool, P())}")
    if bad:
        print(f"VIOLATED: {bad} skipped the copy although the files differ beyond the first 1048576 bytes")
        return 1
    print("OK")
    return 0


if __name__ == "__main__":
    sys.exit(main())
