import os, sys
sys.path.insert(0, os.getcwd())
import avocado_i2n
assert avocado_i2n.__file__.startswith(os.getcwd())
import logging
logging.disable(logging.CRITICAL)
import avocado_i2n.cmd_parser as cmd
import avocado_i2n.params_parser as param

def run(args):
    config = {"params": args}
    try:
        cmd.params_from_cmd(config)
    except Exception as e:
        print(args, "->", type(e).__name__, str(e)[:150].replace("\n", "|"))
        return None
    rep = param.Reparsable()
    rep.parse_next_batch(base_file="sets.cfg", ovrwrt_file=param.tests_ovrwrt_file(), ovrwrt_str=config["tests_str"], ovrwrt_dict=config["param_dict"])
    names = [d["shortname"] for d in rep.get_parser().get_dicts()]
    print(args, "->", repr(config["tests_str"]), config["param_dict"], config["vm_strs"], config["vms_params"]["vms"], len(names))
    return config, names

for args in [
    ["no=leaves"],
    ["only=tutorial1", "no=minimal"],
    ["only=normal.gui"],
    ["vms=vm1,vm1"],
    ["vms="],
    ["vms=vm1", "vms=vm2"],
    ["only="],
    ["aaa=b=c d"],
    ["aaa=b#c"],
    ["aaa= b"],
    ["aaa=\"b c\""],
    ["aaa=b\nonly tutorial1"],
    ["only_vm1=CentOS", "no_vm1=CentOS"],
    ["only_vm1"],
    ["nets=net1", "nets=net2"],
    ["nets=netX"],
    ["only_nets=netX"],
    ["only_vmX=a"],
    ["only_vm1=Win10"],
    ["main_vm=vm2"],
    ["only=leaves..tutorial1"],
    ["only=nonleaves"],
    ["default_only=minimal"],
    ["default_only_vm1=Fedora"],
    ["only_vm1=", "default_only_vm1=Fedora"],
    ["vms=vm2", "only=tutorial1"],
]:
    run(args)
