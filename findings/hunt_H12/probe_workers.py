import os, sys
sys.path.insert(0, os.getcwd())
import avocado_i2n
assert avocado_i2n.__file__.startswith(os.getcwd())
import logging
logging.disable(logging.CRITICAL)
from avocado_i2n.cartgraph import TestGraph, TestSwarm

def show(params):
    try:
        ws = TestGraph.parse_workers(params)
    except Exception as e:
        print(params, "->", type(e).__name__, str(e)[:200].replace("\n","|"))
        return
    print(params, "->", [(w.id, w.swarm_id, w.params["nets_host"], w.params["nets_spawner"]) for w in ws])
    print("   swarms:", {k: [w.id for w in v.workers] for k, v in TestSwarm.run_swarms.items()})

show({})
show({"nets": "net6"})
show({"nets": "net6 net7", "slots": "1 2"})
show({"nets": "net1", "slots": "1 2"})
show({"nets": "net1 net2", "slots": ""})
show({"nets": "net1 net2", "slots": "1"})
show({"nets": "net1 net1"})
show({"nets": "netX"})
show({"nets": "net1  net2"})
show({"nets": "net1", "slots": "c101"})
show({"nets": "net1", "slots": "a/b/c"})
show({"slots": "1 2"})
