"""C11/C20: a nets selection naming a localhost net (nets=net6, only_nets=localhost,
only_nets=cluster1..net6,net7) also yields the cluster1/cluster2 workers of the same suffix
which are then neither registered in their swarm nor given the slot.
Exit 1 if the violation is present."""
import os, sys
sys.path.insert(0, os.getcwd())
import avocado_i2n
assert avocado_i2n.__file__.startswith(os.getcwd())
import logging
logging.disable(logging.CRITICAL)
import avocado_i2n.cmd_parser as cmd
import avocado_i2n.params_parser as param
from avocado_i2n.cartgraph import TestGraph, TestSwarm

bad = False
for args in (["only_nets=localhost"], ["nets=net6"], ["only_nets=net6..localhost"], ["nets=net6", "slots=7"]):
    config = {"params": list(args)}
    cmd.params_from_cmd(config)
    selected = config["param_dict"]["nets"].split()
    workers = TestGraph.parse_workers(config["param_dict"])
    ids = [w.id for w in workers]
    in_swarms = [w.id for s in TestSwarm.run_swarms.values() for w in s.workers]
    print(f"{args}: selected nets = {selected}")
    print(f"    parsed workers    = {ids}")
    print(f"    workers in swarms = {in_swarms}")
    extra = [i for i in ids if i not in selected]
    if extra:
        print(f"    VIOLATION: workers never selected on the command line: {extra}")
        bad = True
    lost = [i for i in ids if i not in in_swarms]
    if lost:
        print(f"    VIOLATION: workers not registered in any swarm: {lost}")
        bad = True
    if "slots=7" in args:
        hosts = {w.id: w.params["nets_host"] for w in workers}
        print(f"    hosts after slot  = {hosts}")
        if hosts.get("net6") != "c7":
            print("    VIOLATION: the slot was not applied to the selected worker net6")
            bad = True
sys.exit(1 if bad else 0)
