import os, sys, re, asyncio, contextlib
sys.path.insert(0, os.getcwd())
sys.path.insert(0, os.path.join(os.getcwd(), "selftests", "isolation"))
import avocado_i2n
assert avocado_i2n.__file__.startswith(os.getcwd())
import logging
logging.disable(logging.CRITICAL)
import unittest.mock as mock
from virttest import utils_params
from avocado_i2n import intertest_setup
from avocado_i2n.plugins.runner import TestRunner

RUN = []
UNSET = []
FAIL = []  # regexes of shortnames to fail

class Rec:
    states_params = {}
    action = "check"
    @staticmethod
    def run_subcontrol(session, path):
        params = Rec.states_params
        do = Rec.action
        if do == "check":
            return
        for vm in params.objects("vms"):
            vm_params = params.object_params(vm)
            for image in params.objects("images"):
                ip = vm_params.object_params(image)
                st = ip.get(f"{do}_state_images") or ip.get(f"{do}_state_vms")
                if st:
                    UNSET.append((do, vm, st, params.get("nets"), params.get("shortname")))
    @staticmethod
    def set_subcontrol_parameter(_, __, do):
        Rec.action = do
    @staticmethod
    def set_subcontrol_parameter_dict(_, __, p):
        Rec.states_params = p

async def run_task(self, node):
    if not hasattr(self.job, "result"):
        self.job.result = mock.MagicMock(); self.job.result.tests = []
    await asyncio.sleep(0.01)
    sn = node.params["shortname"]
    status = "FAIL" if any(re.search(f, sn) for f in FAIL) else "PASS"
    RUN.append((sn, node.params["vms"], node.params.get("nets"), node.params.get("vm_action"), dict(node.params)))
    tid = type("Mock", (), {"uid": node.id_test.uid, "name": node.params["name"]})()
    self.job.result.tests.append({"name": tid, "status": status, "time_elapsed": "1", "logdir": "."})
    return status == "PASS"

@contextlib.contextmanager
def new_job(config):
    job = mock.MagicMock(); job.logdir = "."; job.timeout = 60; job.config = config; job.result.tests = []
    loader, runner = config["graph"].l, config["graph"].r
    loader.logdir = job.logdir; runner.job = job
    yield job

def patches():
    return [
        mock.patch('avocado_i2n.intertest_setup.new_job', new_job),
        mock.patch('avocado_i2n.cartgraph.worker.remote.wait_for_login', mock.MagicMock()),
        mock.patch('avocado_i2n.cartgraph.node.door', Rec),
        mock.patch('avocado_i2n.cartgraph.worker.TestWorker.start', mock.MagicMock()),
        mock.patch('avocado_i2n.plugins.runner.SpawnerDispatcher', mock.MagicMock()),
        mock.patch.object(TestRunner, 'run_test_task', run_task),
    ]

def base_config(nets="net1"):
    c = {}
    c["available_vms"] = {"vm1": "only CentOS\n", "vm2": "only Win10\n", "vm3": "only Ubuntu\n"}
    c["available_restrictions"] = ["leaves", "normal", "minimal"]
    c["param_dict"] = {"nets": nets}
    c["vm_strs"] = c["available_vms"].copy()
    c["tests_str"] = {}
    c["tests_params"] = utils_params.Params()
    c["vms_params"] = utils_params.Params()
    return c

def call(func, config, tag="0"):
    RUN.clear(); UNSET.clear()
    with contextlib.ExitStack() as st:
        for p in patches():
            st.enter_context(p)
        f = getattr(intertest_setup, func) if isinstance(func, str) else func
        return f(config, tag)
