"""C20: an unknown (mistyped) step of a manual setup chain is looked up outside of the
per-step error handling of Manu.run: the chain crashes with an AttributeError after the
earlier steps have already run, the later steps never run and no exit status is returned.
Any other attribute of the intertest_setup module (e.g. 'sys', 'param', 'TestGraph') is
accepted as a step too. Exit 1 if the violation is present."""
import os, sys
sys.path.insert(0, os.getcwd())
import avocado_i2n
assert avocado_i2n.__file__.startswith(os.getcwd())
import logging
logging.disable(logging.CRITICAL)
import unittest.mock as mock
from avocado_i2n.plugins.manu import Manu
from avocado_i2n import intertest_setup

bad = False
for chain in ("noop,shutdwn,noop", "shutdwn", "noop,TestGraph,noop"):
    calls = []
    def noop(config, tag=""):
        calls.append(tag)
    config = {"i2n.manu.params": [f"setup={chain}", "vms=vm1"]}
    with mock.patch.object(intertest_setup, "noop", noop), \
         mock.patch("avocado_i2n.plugins.manu.LOG_UI") as ui:
        try:
            ret = Manu().run(config)
            errors = [str(c.args[0]) % tuple(c.args[1:]) if len(c.args) > 1 else str(c.args[0])
                      for c in ui.error.call_args_list]
            print(f"setup={chain}: exit status {ret}, noop steps run: {calls}, UI errors: {errors}")
            if ret != 1 or not any(chain.split(",")[-2 if "," in chain else 0] in e for e in errors):
                print("    VIOLATION: the unknown step was not reported as a failure of the chain")
                bad = True
        except AttributeError as error:
            print(f"setup={chain}: crashed with AttributeError: {error}; noop steps run before: {calls}")
            print("    VIOLATION: no exit status, later steps skipped")
            bad = True
sys.exit(1 if bad else 0)
