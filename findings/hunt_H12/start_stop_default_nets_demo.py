"""C20: the start/stop manual steps fail with KeyError('nets') when no nets are selected on
the command line although every other step (and parse_workers itself) falls back to the
configured default nets. Exit 1 if the violation is present."""
import os, sys
sys.path.insert(0, os.path.join(os.getcwd(), "hunt"))
from upd_harness import *
from avocado_i2n.cartgraph import TestWorker
from avocado_i2n.plugins.manu import Manu
import avocado_i2n.params_parser as param

bad = False
for step in ("start", "stop"):
    touched = []
    def operation(self):
        touched.append(self.id)
        return True
    config = {"i2n.manu.params": [f"setup={step}", "vms=vm1"]}
    with contextlib.ExitStack() as st:
        for p in patches():
            st.enter_context(p)
        st.enter_context(mock.patch.object(TestWorker, step, operation))
        ui = st.enter_context(mock.patch("avocado_i2n.plugins.manu.LOG_UI"))
        ret = Manu().run(config)
    errors = [repr(c.args[0]) for c in ui.error.call_args_list]
    print(f"setup={step} without nets: exit status {ret}, workers handled: {touched}, errors: {errors[:1]}")
    if ret != 0 or set(touched) != set(param.all_objects("nets")):
        print(f"    VIOLATION: the step did not {step} the default workers {param.all_objects('nets')}")
        bad = True
sys.exit(1 if bad else 0)
