import sys, os
sys.path.insert(0, os.path.join(os.getcwd(), "hunt"))
from upd_harness import *
import time
for vm, frm, to in [("vm1","customize","connect"), ("vm1", "customize", "customize"), ("vm1","on_customize","on_customize"), ("vm1", "install", "install"), ("vm1","connect","connect"), ("vm1","nonexist","customize"), ("vm1","install","nonexist")]:
    c = base_config("net1")
    c["vm_strs"] = {vm: c["available_vms"][vm]}
    c["vms_params"][f"from_state_{vm}"] = frm
    c["vms_params"][f"to_state_{vm}"] = to
    t = time.time()
    try:
        r = call("update", c)
    except Exception as e:
        print(vm, frm, to, "EXC", type(e).__name__, str(e)[:200].replace("\n", "|"))
        continue
    print(vm, frm, to, "ret", r, "%.0fs" % (time.time()-t))
    print("  RUN", [(x[0][:60], x[1]) for x in RUN])
    print("  UNSET", sorted(set((u[1], u[2]) for u in UNSET if u[0]=="unset")))
