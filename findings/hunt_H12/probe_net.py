import os, sys, random, ipaddress
sys.path.insert(0, os.getcwd())
import avocado_i2n
assert avocado_i2n.__file__.startswith(os.getcwd())
import logging
logging.disable(logging.CRITICAL)
from virttest.utils_params import Params
from avocado_i2n.vmnet.netconfig import VMNetconfig
from avocado_i2n.vmnet.interface import VMInterface

random.seed(1)
bad = 0
for t in range(3000):
    bits = random.randint(0, 32)
    net = ipaddress.ip_network((random.getrandbits(32) >> (32-bits) << (32-bits)) if bits else 0).supernet(new_prefix=bits) if False else ipaddress.ip_network(((random.getrandbits(32) >> (32-bits)) << (32-bits) if bits else 0, bits))
    size = net.num_addresses
    off = random.randrange(size)
    ip = str(net.network_address + off)
    lo = random.randrange(min(size, 300)); hi = random.randrange(lo, min(size, 300))
    p = Params({"mac": "00", "ip": ip, "netmask": str(net.netmask), "range": f"{lo}-{hi}"})
    i = VMInterface("n", p)
    nc = VMNetconfig()
    try:
        nc.from_interface(i)
        nc.add_interface(i)
        assert nc.net_ip == str(net.network_address), (nc.net_ip, net)
        assert nc.mask_bit == str(bits), (nc.mask_bit, bits)
        nc.mask_bit = str(bits)
        assert nc.netmask == str(net.netmask)
        got = []
        while True:
            try:
                got.append(nc.get_allocatable_address())
            except IndexError:
                break
        exp = [str(net.network_address + k) for k in range(lo, hi+1)]
        assert got == exp, (got[:3], exp[:3])
        assert nc.ip_start == exp[0] and nc.ip_end == exp[-1]
        # translate
        bits2 = bits
        tgt = ipaddress.ip_network(((random.getrandbits(32) >> (32-bits)) << (32-bits) if bits else 0, bits))
        nat = str(tgt.network_address + random.randrange(size))
        tr = nc.translate_address(ip, nat)
        assert tr == str(tgt.network_address + off), (tr, tgt, off)
    except Exception as e:
        bad += 1
        if bad < 10:
            print("FAIL", net, ip, lo, hi, type(e).__name__, e)
print("bad", bad)
