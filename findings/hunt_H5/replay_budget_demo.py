"""
C10 demo (replay): "when replaying a previous job ... a test without [an acceptable previous result] is
[executed again]".

The replay parameter accepts several previous jobs (results_from_previous_jobs() splits it and loads every
results.json).  Every previous result is counted as a spent try and the default budget in replay mode is the
constant max_tries=2, so a test that failed in job1 and failed again in job2 (= the replay of job1) is silently
NOT executed when job1 and job2 are replayed together, although it has no acceptable result at all.
The same happens when replaying a single job in which the test was already retried (two FAIL entries).

The demo writes two real results.json files, loads them with the real TestRunner.results_from_previous_jobs()
and traverses one leaf test (all setup available).  Exit 1 if the test is not executed again, 0 otherwise.
"""
import os, sys, contextlib, tempfile, json
sys.path.insert(0, os.getcwd())
sys.path.insert(1, os.path.join(os.getcwd(), "hunt"))
from harness import *
logging.disable(logging.CRITICAL)

T = 10
VMSTR = {"vm1": "only CentOS\n", "vm2": "only Win10\n", "vm3": "only Ubuntu\n"}
ALL_SETUP = ["root", "install", "customize", "on_customize"]


def run(replay_jobs, logs_dir):
    rec = Recorder(lambda node, nth: (1.0, "PASS"))
    with contextlib.ExitStack() as st:
        for p in patches(rec):
            st.enter_context(p)
        set_pool(present=ALL_SETUP)
        params = {"nets": "net1", "test_timeout": T, "shared_pool": "/mnt/local/images/shared",
                  "replay": " ".join(replay_jobs)}
        graph = TestGraph.parse_object_trees(None, "only normal\nonly tutorial1\n", "", VMSTR, params)
        leaf = graph.get_nodes(param_val="tutorial1", unique=True)
        for job in replay_jobs:
            os.makedirs(os.path.join(logs_dir, job), exist_ok=True)
            with open(os.path.join(logs_dir, job, "results.json"), "w") as fd:
                # the fields written by avocado's json result plugin that matter here
                json.dump({"job_id": job, "tests": [{"id": "1-" + leaf.params["name"], "name": leaf.params["name"],
                                                    "status": "FAIL", "time_elapsed": 1.0}]}, fd)
        runner = make_runner()
        runner.job.config = {"param_dict": params, "datadir.paths.logs_dir": logs_dir}
        runner.results_from_previous_jobs()
        traverse(graph, runner, params)
    print(f"replay={replay_jobs}: previous statuses {[r['status'] for r in runner.previous_results]}, "
          f"executions now: {[(e['worker'], e['status'], e['prefix']) for e in rec.executions]}")
    return len(rec.executions)


def main():
    with tempfile.TemporaryDirectory(dir=os.path.join(os.getcwd(), "hunt")) as logs_dir:
        once = run(["job1"], logs_dir)
        twice = run(["job1", "job2"], logs_dir)
    assert once == 1, "sanity: a test that failed in the one replayed job is executed again"
    if twice == 0:
        print("VIOLATION: the test failed in both replayed jobs, has no acceptable result and is not executed again")
        return 1
    print("OK: the test without an acceptable previous result was executed again")
    return 0


if __name__ == "__main__":
    sys.exit(main())
