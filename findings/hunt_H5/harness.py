"""Shared harness for the hunt demos: real project code, mocked environment, virtual time."""
import os, sys, asyncio, re, random, logging, collections
sys.path.insert(0, os.getcwd())
sys.path.insert(1, os.path.join(os.getcwd(), "selftests", "isolation"))
import unittest.mock as mock
import avocado_i2n
assert avocado_i2n.__file__.startswith(os.getcwd() + os.sep), avocado_i2n.__file__

from aexpect.exceptions import ShellCmdError
from unittest_utils import DummyStateControl
from avocado_i2n.plugins.runner import TestRunner
from avocado_i2n.cartgraph import TestGraph, TestNode, TestWorker, TestSwarm


class VirtualTimeLoop(asyncio.SelectorEventLoop):
    """Event loop whose clock jumps to the next timer when nothing is ready."""
    def __init__(self):
        super().__init__()
        self._vt = 0.0
    def time(self):
        return self._vt
    def _run_once(self):
        if not self._ready and self._scheduled:
            when = self._scheduled[0]._when
            if when > self._vt:
                self._vt = when
        super()._run_once()


class Recorder:
    """Replacement of TestRunner.run_test_task: records executions, durations and statuses come from a policy."""
    def __init__(self, policy):
        # policy(node, nth_execution_of_this_test_name) -> (duration, status or None for never reported)
        self.policy = policy
        self.executions = []   # dicts: name, short, worker, start, end, status, uid, type
        self.counts = collections.Counter()

    def make(self):
        recorder = self
        async def run_test_task(self, node):
            loop = asyncio.get_event_loop()
            assert node.started_worker is not None
            short = node.params["shortname"]
            key = re.sub(r"\.nets\.[^.]+\.[^.]+(?=\.|$)", "", node.params["name"])
            recorder.counts[key] += 1
            duration, status = recorder.policy(node, recorder.counts[key])
            rec = {"name": node.params["name"], "short": short, "key": key, "type": node.params.get("type"),
                   "worker": node.started_worker.id, "start": loop.time(), "end": None,
                   "status": status, "uid": node.id_test.uid, "prefix": node.prefix,
                   "timeout": float(node.params.get("test_timeout", 3600))}
            recorder.executions.append(rec)
            await asyncio.sleep(duration)
            rec["end"] = loop.time()
            if status is not None:
                tid = type("Mock", (), {"uid": rec["uid"], "name": rec["name"]})()
                self.job.result.tests.append({"name": tid, "status": status,
                                              "time_elapsed": str(duration), "logdir": "."})
        return run_test_task


def make_runner():
    job = mock.MagicMock()
    job.logdir = "."
    job.timeout = 6000
    job.result = mock.MagicMock()
    job.result.tests = []
    runner = TestRunner()
    runner.job = job
    runner.status_server = job
    return runner


def set_pool(present=(), shared_pool="/mnt/local/images/shared"):
    loc = ":" + shared_pool
    states = ["root", "install", "customize", "on_customize", "connect", "linux_virtuser", "windows_virtuser",
              "guisetup.noop", "guisetup.clicked", "getsetup.noop", "getsetup.clicked", "getsetup.guimanual",
              "getsetup.guiauto", "ready"]
    DummyStateControl.asserted_states = {"check": {}, "get": {}, "set": {}, "unset": {}}
    for s in states:
        DummyStateControl.asserted_states["check"][s] = {loc: s in present}
        DummyStateControl.asserted_states["get"][s] = {loc: 0}
        DummyStateControl.asserted_states["unset"][s] = {loc: 0}
        DummyStateControl.asserted_states["set"][s] = {loc: 0}


def patches(recorder):
    return [
        mock.patch('avocado_i2n.cartgraph.worker.remote.wait_for_login', mock.MagicMock()),
        mock.patch('avocado_i2n.cartgraph.node.door', DummyStateControl),
        mock.patch('avocado_i2n.plugins.runner.SpawnerDispatcher', mock.MagicMock()),
        mock.patch.object(TestRunner, 'run_test_task', recorder.make()),
    ]


def traverse(graph, runner, params, loop=None, limit=None):
    loop = loop or VirtualTimeLoop()
    asyncio.set_event_loop(loop)
    graph.runner = runner
    workers = sorted(graph.workers.values(), key=lambda x: x.params["name"])
    coros = [graph.traverse_object_trees(w, params) for w in workers]
    try:
        loop.run_until_complete(asyncio.wait_for(asyncio.gather(*coros), limit))
    finally:
        end = loop.time()
    return end


def overlaps(executions, key_filter=None):
    """Return the maximal number of concurrent executions per test key together with witnesses."""
    out = {}
    by_key = collections.defaultdict(list)
    for e in executions:
        by_key[e["key"]].append(e)
    for key, recs in by_key.items():
        events = []
        for r in recs:
            events.append((r["start"], 1, r))
            events.append((r["end"] if r["end"] is not None else float("inf"), -1, r))
        events.sort(key=lambda x: (x[0], x[1]))
        cur, best, live, wit = 0, 0, [], []
        for t, d, r in events:
            if d == 1:
                live.append(r); cur += 1
                if cur > best:
                    best, wit = cur, list(live)
            else:
                live.remove(r); cur -= 1
        out[key] = (best, wit)
    return out
