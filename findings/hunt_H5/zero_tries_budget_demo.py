"""
C03/C04 demo: max_tries=0 (accepted by the retry validation: only negative values are rejected, and treated
like "run once, never retry" everywhere else) makes the back-off budget of traverse_object_trees
test_timeout * max_tries = 0 seconds.  A worker that meets a setup test occupied by another worker then raises
max_concurrent_tries of the node after its second 0.1s back-off and executes the very same setup test at the
same time as the first worker, although that one is well within its timeout (5s of 10s).

Exit 1 if the violation is present, 0 otherwise.
"""
import os, sys, contextlib
sys.path.insert(0, os.getcwd())
sys.path.insert(1, os.path.join(os.getcwd(), "hunt"))
from harness import *
logging.disable(logging.CRITICAL)

T = 10
VMSTR = {"vm1": "only CentOS\n", "vm2": "only Win10\n", "vm3": "only Ubuntu\n"}


def main():
    rec = Recorder(lambda node, nth: (5.0, "PASS"))
    with contextlib.ExitStack() as st:
        for p in patches(rec):
            st.enter_context(p)
        set_pool(present=["install"])
        params = {"nets": "net1 net2", "test_timeout": T, "shared_pool": "/mnt/local/images/shared",
                  "max_tries": "0"}
        graph = TestGraph.parse_object_trees(None, "only normal\nonly tutorial1\n", "", VMSTR, params)
        traverse(graph, make_runner(), params)

    for e in rec.executions:
        print(f"{e['worker']:5} {e['start']:6.2f} -> {e['end']:6.2f} {e['status']:5} uid={e['prefix']:9} {e['short'][:45]}")
        assert e["end"] - e["start"] <= T, "no test may overrun its timeout in this demo"
    status = 0
    counts = collections.Counter(e["key"] for e in rec.executions)
    for key, (best, wit) in overlaps(rec.executions).items():
        if best > 1 or counts[key] > 1:
            status = 1
            print(f"VIOLATION: {wit[0]['short'][:40]} executed {counts[key]}x, {best} at the same time: "
                  + ", ".join(f"{w['worker']}[{w['start']:.1f},{w['end']:.1f}]" for w in wit))
    if status == 0:
        print("OK: every test was executed once by one worker")
    return status


if __name__ == "__main__":
    sys.exit(main())
