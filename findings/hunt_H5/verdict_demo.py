"""
C10 demo (verdict): "the run is reported successful exactly when every executed test has at least one
acceptable result".

Part A (TestRunner.all_results_ok): retries of one test are shared among the workers (the tries of all bridged
nodes count against one max_tries, a PASS anywhere satisfies stop_status) but the verdict groups the results by
the worker specific test name.  tutorial1 FAILs on net1, its retry PASSes on net2, nothing is retried any more
(stop_status=pass reached) and yet all_results_ok() says the run failed.

Part B (TestRunner.run_suite): even with one worker (FAIL then PASS under the very same name, the case that
all_results_ok() and selftest test_run_exit_code accept as success) the summary returned by run_suite() - which
is what avocado turns into the job exit code - still contains FAIL, because after consulting all_results_ok()
every status of every executed task is added to the summary unconditionally.

Exit 1 if a violation is present, 0 otherwise.
"""
import os, sys, contextlib, tempfile
sys.path.insert(0, os.getcwd())
sys.path.insert(1, os.path.join(os.getcwd(), "hunt"))
from harness import *
from avocado.core.nrunner.task import TASK_DEFAULT_CATEGORY, Task
from avocado.core.task.runtime import RuntimeTask
logging.disable(logging.CRITICAL)

T = 10
VMSTR = {"vm1": "only CentOS\n", "vm2": "only Win10\n", "vm3": "only Ubuntu\n"}
ALL_SETUP = ["root", "install", "customize", "on_customize"]


def part_a():
    print("--- part A: FAIL on net1, PASS of the retry on net2 (max_tries=2 stop_status=pass)")
    # net1 gets the first try (5s, FAIL), net2 joins in with the second try (1s, PASS)
    rec = Recorder(lambda node, nth: (5.0, "FAIL") if nth == 1 else (1.0, "PASS"))
    with contextlib.ExitStack() as st:
        for p in patches(rec):
            st.enter_context(p)
        set_pool(present=ALL_SETUP)
        params = {"nets": "net1 net2", "test_timeout": T, "shared_pool": "/mnt/local/images/shared",
                  "max_tries": "2", "stop_status": "pass"}
        graph = TestGraph.parse_object_trees(None, "only normal\nonly tutorial1\n", "", VMSTR, params)
        runner = make_runner()
        traverse(graph, runner, params)
        for e in rec.executions:
            print(f"{e['worker']:5} {e['start']:6.2f} -> {e['end']:6.2f} {e['status']:5} uid={e['prefix']:5} {e['short'][:45]}")
        leaf = graph.get_nodes(param_val="tutorial1.+net1", unique=True)
        statuses = [r["status"] for r in leaf.shared_results]
        verdict = runner.all_results_ok()
    print(f"shared results of the one selected test: {statuses}; all_results_ok() = {verdict}")
    if "PASS" in statuses and not verdict:
        print("VIOLATION: every executed test has an acceptable result but the run is judged as failed")
        return 1
    print("OK")
    return 0


def part_b():
    print("--- part B: FAIL then PASS on the same worker, summary of run_suite()")
    from avocado.core.status.repo import StatusRepo
    outcomes = iter([(1.0, "FAIL"), (1.0, "PASS")])
    rec = Recorder(lambda node, nth: next(outcomes))
    base_run = rec.make()

    async def run_test_task(self, node):
        # what the real run_test_task() does for the bookkeeping used by run_suite(): one "test" task
        # per execution whose final result reaches the status repository
        raw_task = Task(node, node.id_test, ["localhost:0"], category=TASK_DEFAULT_CATEGORY, job_id=self.job.unique_id)
        self.tasks += [RuntimeTask(raw_task)]
        await base_run(self, node)
        status = rec.executions[-1]["status"]
        task_id = str(raw_task.identifier)
        self.status_repo.process_message({"id": task_id, "job_id": self.job.unique_id, "status": "started", "time": 1.0, "output_dir": self.job.logdir})
        self.status_repo.process_message({"id": task_id, "job_id": self.job.unique_id, "status": "finished",
                                          "result": status.lower(), "time": 2.0})

    with contextlib.ExitStack() as st:
        for p in patches(rec):
            st.enter_context(p)
        st.enter_context(mock.patch.object(TestRunner, "run_test_task", run_test_task))
        server = st.enter_context(mock.patch("avocado_i2n.plugins.runner.StatusServer"))
        async def noop(): pass
        server.return_value.create_server = noop
        server.return_value.serve_forever = noop
        set_pool(present=ALL_SETUP)
        params = {"nets": "net0", "test_timeout": T, "shared_pool": "/mnt/local/images/shared",
                  "max_tries": "2", "stop_status": "pass"}
        graph = TestGraph.parse_object_trees(None, "only normal\nonly tutorial1\n", "", VMSTR, params)
        graph.enabled, graph.tests, graph.name = True, [], "demo"
        runner = TestRunner()
        runner._update_status = mock.AsyncMock()
        job = mock.MagicMock()
        job.logdir = st.enter_context(tempfile.TemporaryDirectory(dir=os.path.join(os.getcwd(), "hunt")))
        job.timeout = 0
        job.unique_id = "0" * 40
        job.result.tests = []
        job.config = {"param_dict": params, "run.status_server_listen": "localhost:0", "vm_strs": VMSTR}
        asyncio.set_event_loop(VirtualTimeLoop())
        summary = runner.run_suite(job, graph)
        ok = runner.all_results_ok()
    for e in rec.executions:
        print(f"{e['worker']:5} {e['start']:6.2f} -> {e['end']:6.2f} {e['status']:5} uid={e['prefix']:5} {e['short'][:45]}")
    print(f"all_results_ok() = {ok}; run_suite() summary = {sorted(summary)}")
    if ok and ("FAIL" in summary or "ERROR" in summary):
        print("VIOLATION: every executed test has an acceptable result but the summary makes avocado exit with AVOCADO_TESTS_FAIL")
        return 1
    print("OK")
    return 0


if __name__ == "__main__":
    which = sys.argv[1] if len(sys.argv) > 1 else "AB"
    status = 0
    if "A" in which:
        status |= part_a()
    if "B" in which:
        status |= part_b()
    sys.exit(status)
