"""
C04/C03 demo (default settings, no retries): the creation of an object is two test executions in a row
(configuration step + installation) during which the object root stays occupied, but the back-off budget
of a waiting worker is a single test_timeout.  With both steps well within their own timeout (6s and 6s of 10s)
the waiting worker gives up after 10s, raises max_concurrent_tries and creates the same object at the same
time as the first worker.

Exit 1 if the violation is present, 0 otherwise.
"""
import os, sys, contextlib
sys.path.insert(0, os.getcwd())
sys.path.insert(1, os.path.join(os.getcwd(), "hunt"))
from harness import *
logging.disable(logging.CRITICAL)

T = 10
VMSTR = {"vm1": "only CentOS\n", "vm2": "only Win10\n", "vm3": "only Ubuntu\n"}


def policy(node, nth):
    if node.params.get("type") == "shared_configure_install" or "unattended_install" in node.params["shortname"]:
        return 6.0, "PASS"
    return 1.0, "PASS"


def main():
    rec = Recorder(policy)
    with contextlib.ExitStack() as st:
        for p in patches(rec):
            st.enter_context(p)
        set_pool(present=[])
        params = {"nets": "net1 net2", "test_timeout": T, "shared_pool": "/mnt/local/images/shared"}
        graph = TestGraph.parse_object_trees(None, "only normal\nonly tutorial1\n", "", VMSTR, params)
        traverse(graph, make_runner(), params)

    for e in rec.executions:
        print(f"{e['worker']:5} {e['start']:6.2f} -> {e['end']:6.2f} {e['status']:5} uid={e['prefix']:9} {e['short'][:45]}")
        assert e["end"] - e["start"] <= T, "no test may overrun its timeout in this demo"
    status = 0
    # the two steps of one worker form one creation of the object
    windows = {}
    for e in rec.executions:
        if e["type"] == "shared_configure_install" or "unattended_install" in e["short"]:
            start, end = windows.get(e["worker"], (e["start"], e["end"]))
            windows[e["worker"]] = (min(start, e["start"]), max(end, e["end"]))
    print("creation windows of vm1:", {w: (round(a, 2), round(b, 2)) for w, (a, b) in windows.items()})
    if len(windows) > 1:
        status = 1
        print(f"VIOLATION: the object was created {len(windows)}x with max_tries=1")
        spans = sorted(windows.values())
        if spans[1][0] < spans[0][1]:
            print(f"VIOLATION: two creations overlap in time: {spans}")
    if status == 0:
        print("OK: the object was created once by one worker")
    return status


if __name__ == "__main__":
    sys.exit(main())
