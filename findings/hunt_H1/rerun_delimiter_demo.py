"""
C10 (minor): a list of several rerun statuses is only accepted space-separated without replay and only
comma-separated with replay (stop_status is space-separated in both modes); the other notation of the same
valid setting aborts the run with "must be a valid test status".

Exit 1 if the same valid list is accepted in one mode and rejected in the other.
"""
import sys
from harness import *

outcome = {}
sim = Sim()
with Env(sim) as env:
    graph = env.load_full("only normal\nonly tutorial1\n", {"nets": "net1", "test_timeout": 100})
    leaf = graph.get_nodes(param_val="tutorial1.+net1$", unique=True)
    worker = graph.workers["net1"]
    leaf.results = [{"name": leaf.params["name"], "status": "FAIL", "time_elapsed": 1}]
    for replay in ("", "previous_job"):
        for value in ("fail error", "fail,error"):
            leaf.params["max_tries"] = "3"
            leaf.params["rerun_status"] = value
            if replay:
                leaf.params["replay"] = replay
            else:
                leaf.params["replay"] = ""
            try:
                outcome[(replay, value)] = leaf.should_rerun(worker)
            except ValueError as error:
                outcome[(replay, value)] = f"ValueError: {error}"
for key, value in outcome.items():
    print(f"replay={key[0]!r:15} rerun_status={key[1]!r:13} -> {value}")
bad = [k for k, v in outcome.items() if v is not True]
if bad:
    print("VIOLATION: valid rerun status list rejected for", bad)
    sys.exit(1)
print("OK")
