import sys
from fuzz1 import *
restriction, nets, mode, seed = sys.argv[1], sys.argv[2], sys.argv[3], int(sys.argv[4])
extra = dict(kv.split("=") for kv in sys.argv[5:])
sim, graph, err = run(seed, restriction, nets, mode, extra)
for e in sim.events:
    if e[0] == "start":
        print(f"{e[1]:7.2f} {e[2]:14s} START {e[3]} uid={e[4]} missing={[(m[0], m[2], m[3]) for m in e[5]]} loc={e[6]}")
    elif e[0] == "end":
        print(f"{e[1]:7.2f} {e[2]:14s} END   {e[3]} {e[5]} gone={e[6]}")
    elif e[0] in ("unset", "sync"):
        print(f"{e[1]:7.2f} {e[2]:14s} {e[0].upper()} {e[3]} {e[4]}")
    elif e[0] == "check":
        print(f"{e[1]:7.2f} {e[2]:14s} CHECK {e[3]} missing={e[4]}")
print(analyze(sim, graph, err, int(extra.get("max_tries", 1)))[0])
