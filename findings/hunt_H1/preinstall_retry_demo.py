"""
C02 / C03 / C10: the first (configuration) step of an object creation fails persistently while
retries are enabled (max_tries=2, everything else default).

Expected: the creation is attempted exactly max_tries times in total (all statuses are in the
default rerun set), then the run goes on and terminates.
Observed: with one worker it is attempted once (no retry at all), with two or more workers
the workers keep re-attempting it forever (no result of the failed step is ever recorded on
the object root node, each worker only ever sees the pending placeholder of the other one).

Exit 1 if the number of attempts differs from max_tries (or the traversal had to be aborted).
"""
import sys, asyncio
from harness import *

MAX_TRIES = 2
LIMIT = 12  # abort the simulation after that many attempts to keep the demo finite


class Abort(Exception):
    pass


def scenario(nets):
    attempts = []

    def status_fn(sname, wid, index, node):
        if node.params.get("type") == "shared_configure_install":
            attempts.append((wid, node.id_test.uid))
            if len(attempts) >= LIMIT:
                raise Abort()
            return "FAIL"
        return "PASS"

    sim = Sim(status_fn=status_fn, duration_fn=lambda *a: 0.01)
    params = {"nets": nets, "test_timeout": 100, "max_tries": str(MAX_TRIES)}
    with Env(sim) as env:
        graph = env.load_full("only normal\nonly tutorial1\n", params)
        aborted = False
        try:
            env.traverse(graph, {"test_timeout": 100, "max_tries": str(MAX_TRIES)}, timeout=60)
        except (Abort, asyncio.TimeoutError):
            aborted = True
    root = graph.get_nodes(param_val="unattended_install.+net1$", unique=True)
    print(f"workers='{nets}' max_tries={MAX_TRIES}: configuration step attempts={len(attempts)}"
          f"{' (demo aborted the endless traversal)' if aborted else ''}: {attempts}")
    print("   results recorded on the object root node(s):", [r["status"] for r in root.shared_results])
    return aborted or len(attempts) != MAX_TRIES


bad = [scenario("net1"), scenario("net1 net2")]
if any(bad):
    print("VIOLATION: object creation not attempted exactly max_tries times / traversal does not terminate")
    sys.exit(1)
print("OK")
