"""
Shared simulation harness for the hunt demos.

Drives the REAL graph parsing / traversal / runner code. Only the environment is mocked,
the same way selftests/isolation/test_cartesian_graph.py does it:
 - TestRunner.run_test_task (the avocado nrunner spawning) -> scripted status/duration
 - avocado_i2n.cartgraph.node.door (state check/get/unset on the workers) -> pool model
 - worker sessions / spawner dispatcher -> MagicMock
"""
import os
import sys
import re
import asyncio
import logging
import time
import unittest.mock as mock

sys.path.insert(0, os.getcwd())
import avocado_i2n

assert os.path.realpath(avocado_i2n.__file__).startswith(os.path.realpath(os.getcwd()) + os.sep), avocado_i2n.__file__

from aexpect.exceptions import ShellCmdError
from avocado_i2n import params_parser as param
from avocado_i2n.plugins.runner import TestRunner
from avocado_i2n.cartgraph import TestGraph, TestWorker, TestNode, TestSwarm

logging.disable(logging.CRITICAL)

VM_STRS = {"vm1": "only CentOS\n", "vm2": "only Win10\n", "vm3": "only Ubuntu\n"}
SHARED = "/mnt/local/images/shared"


def short(node_or_name):
    name = node_or_name if isinstance(node_or_name, str) else node_or_name.params["name"]
    m = re.search(r"^(.*?)\.vms\.", name)
    head = m.group(1) if m else name
    vms = " ".join(re.findall(r"vms\.(vm\d)\.", name))
    return head + ("[" + vms + "]" if vms else "")


class Sim:
    """Simulation state: pools, events, scripted outcomes."""

    def __init__(self, status_fn=None, duration_fn=None, shared_states=(), own_states=None, lose_fn=None):
        #: status_fn(short_name, worker_id, try_index, node) -> status string
        self.status_fn = status_fn or (lambda s, w, i, n: "PASS")
        self.duration_fn = duration_fn or (lambda s, w, i, n: 0.05)
        self.lose_fn = lose_fn or (lambda s, w, i, n: False)
        #: states as (object long suffix, state name)
        self.shared = set(shared_states)
        self.own = {} if own_states is None else {k: set(v) for k, v in own_states.items()}
        self.events = []
        self.running = {}
        self.tries = {}
        self.t0 = time.time()
        self.door_action = None
        self.door_params = None
        self.violations = []
        self.removed = []

    # -- pool model -------------------------------------------------------
    def has_state(self, worker_id, key, locations=None):
        if key in self.own.get(worker_id, set()):
            return "own"
        if locations is None:
            return "shared" if key in self.shared else None
        for location in locations:
            wid, _ = location.split(":")
            if wid == "" and key in self.shared:
                return "shared"
            if wid and key in self.own.get(wid, set()):
                return wid
        return None

    # -- door mock (state control on the worker) --------------------------
    def set_subcontrol_parameter(self, _path, _key, do):
        self.door_action = do
        return _path

    def set_subcontrol_parameter_dict(self, _path, _key, params):
        self.door_params = params
        return _path

    def run_subcontrol(self, session, _path):
        params, do = self.door_params, self.door_action
        worker_id = params["nets"]
        if do == "check":
            missing = []
            for key in params:
                m = re.match(r"^check_state_(vms|images)_(.+)$", key)
                if not m:
                    continue
                state_key = (m.group(2), params[key])
                if not self.has_state(worker_id, state_key):
                    missing.append(state_key)
            self.events.append(("check", self.now(), worker_id, short(params["name"]), tuple(missing)))
            if missing:
                raise ShellCmdError("cmd", 1, "AssertionError: missing %s" % missing)
        elif do == "unset":
            for key in params:
                m = re.match(r"^unset_state_(vms|images)_(.+)$", key)
                if not m:
                    continue
                state_key = (m.group(2), params[key])
                self.events.append(("unset", self.now(), worker_id, short(params["name"]), state_key))
                self.removed.append((self.now(), worker_id, state_key))
                self.own.get(worker_id, set()).discard(state_key)
        elif do == "get":
            for key in params:
                m = re.match(r"^get_state_(vms|images)_(.+)$", key)
                if not m:
                    continue
                state_key = (m.group(2), params[key])
                self.events.append(("sync", self.now(), worker_id, short(params["name"]), state_key))

    def now(self):
        loop = getattr(self, "loop", None)
        return round(loop.time(), 3) if loop is not None else 0.0


def needed_states(node):
    """Yield (state_key, locations) a node is configured to start from."""
    for test_object in node.objects:
        if test_object.key == "nets":
            continue
        object_params = test_object.object_typed_params(node.params)
        state = object_params.get("get_state")
        if not state or state in ("0root", "root", "0preinstall"):
            continue
        if test_object.is_permanent():
            continue
        locations = object_params.get("get_location", "").split()
        yield (test_object.long_suffix, state), locations


def produced_states(node):
    for test_object in node.objects:
        if test_object.key == "nets":
            continue
        object_params = test_object.object_typed_params(node.params)
        state = object_params.get("set_state")
        if state:
            yield (test_object.long_suffix, state)


def make_run_test_task(sim):
    async def run_test_task(self, node):
        if not hasattr(self.job, "result") or not isinstance(self.job.result.tests, list):
            self.job.result = mock.MagicMock()
            self.job.result.tests = []
        worker = node.started_worker
        wid = worker.id if hasattr(worker, "id") else str(worker)
        name = node.params["name"]
        uid = node.id_test.uid
        sname = short(node)
        key = re.sub(r"\.nets\..*$", "", name)
        index = sim.tries.get(key, 0)
        sim.tries[key] = index + 1
        # C01/C08 bookkeeping: which states are needed and where may they come from
        missing = []
        for state_key, locations in needed_states(node):
            found = sim.has_state(wid, state_key, locations)
            if not found:
                producers = tuple(w for w, states in sim.own.items() if state_key in states)
                removed = tuple(r[1] for r in sim.removed if r[2] == state_key)
                missing.append((state_key, tuple(locations), producers, removed))
        start = sim.now()
        sim.events.append(("start", start, wid, sname, uid, tuple(missing),
                           {k: v for k, v in node.params.items() if k.startswith("get_location")},
                           node.params.get("nets")))
        sim.running.setdefault(key, set()).add(wid)
        duration = sim.duration_fn(sname, wid, index, node)
        await asyncio.sleep(duration)
        status = sim.status_fn(sname, wid, index, node)
        sim.running[key].discard(wid)
        # states needed at start must remain until the end
        gone = []
        for state_key, locations in needed_states(node):
            if not sim.has_state(wid, state_key, locations) and state_key not in [m[0] for m in missing]:
                gone.append(state_key)
        if status in ("PASS", "WARN"):
            for state_key in produced_states(node):
                sim.own.setdefault(wid, set()).add(state_key)
        sim.events.append(("end", sim.now(), wid, sname, uid, status, tuple(gone)))
        if sim.lose_fn(sname, wid, index, node):
            return
        testid = type("Mock", (), {"uid": uid, "name": name})()
        self.job.result.tests.append({"name": testid, "status": status,
                                      "time_elapsed": str(sim.duration_fn(sname, wid, index, node) if status != "WARNDUR" else 100),
                                      "logdir": "."})
    return run_test_task


class VirtualLoop(asyncio.SelectorEventLoop):
    """Event loop with virtual time: sleeping costs nothing and schedules are deterministic."""

    def __init__(self):
        super().__init__()
        self._vt = 0.0

    def time(self):
        return self._vt

    def _run_once(self):
        if not self._ready and self._scheduled:
            when = self._scheduled[0]._when
            if when > self._vt:
                self._vt = when
        super()._run_once()


class Env:
    """Context manager installing the mocks and providing a runner."""

    def __init__(self, sim):
        self.sim = sim
        self.patches = [
            mock.patch('avocado_i2n.cartgraph.worker.remote.wait_for_login', mock.MagicMock()),
            mock.patch('avocado_i2n.cartgraph.node.door', sim),
            mock.patch('avocado_i2n.plugins.runner.SpawnerDispatcher', mock.MagicMock()),
            mock.patch.object(TestRunner, 'run_test_task', make_run_test_task(sim)),
        ]

    def __enter__(self):
        for p in self.patches:
            p.start()
        job = mock.MagicMock()
        job.logdir = "."
        job.timeout = 6000
        job.result = mock.MagicMock()
        job.result.tests = []
        job.config = {"param_dict": {}, "vm_strs": dict(VM_STRS), "tests_str": ""}
        self.runner = TestRunner()
        self.runner.job = job
        self.runner.status_server = job
        TestWorker._session_cache = {}
        return self

    def __exit__(self, *args):
        for p in self.patches:
            p.stop()

    def load_flat(self, restriction, worker_params, vm_strs=None):
        """Graph with flat leaves parsed on demand (like the avocado loader/runner path)."""
        vm_strs = VM_STRS if vm_strs is None else vm_strs
        graph = TestGraph()
        graph.restrs.update(vm_strs)
        nodes = TestGraph.parse_flat_nodes(restriction)
        for node in nodes:
            node.update_restrs(vm_strs)
        graph.new_nodes(nodes)
        graph.parse_shared_root_from_object_roots()
        graph.new_workers(TestGraph.parse_workers(worker_params))
        return graph

    def load_full(self, tests_str, params, vm_strs=None):
        vm_strs = VM_STRS if vm_strs is None else vm_strs
        return TestGraph.parse_object_trees(None, tests_str, "", vm_strs, params)

    def traverse(self, graph, params=None, timeout=120):
        params = {"test_timeout": 100} if params is None else params
        loop = VirtualLoop()
        self.sim.loop = loop
        asyncio.set_event_loop(loop)
        workers = sorted(list(graph.workers.values()), key=lambda x: x.params["name"])
        graph.runner = self.runner
        to_traverse = [graph.traverse_object_trees(w, params) for w in workers]
        try:
            loop.run_until_complete(asyncio.wait_for(asyncio.gather(*to_traverse), timeout))
        finally:
            try:
                for task in asyncio.all_tasks(loop):
                    task.cancel()
                loop.run_until_complete(asyncio.sleep(0))
            except Exception:
                pass
            loop.close()


def print_events(sim, kinds=("start", "end", "unset", "check")):
    for event in sim.events:
        if event[0] in kinds:
            print("   ", event[:7] if event[0] != "start" else event[:6] + (event[6],))
