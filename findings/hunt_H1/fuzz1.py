import sys, random, asyncio, traceback, collections
from harness import *
import harness, os
if os.environ.get("HUNT_VM1") is not None:
    harness.VM_STRS["vm1"] = os.environ["HUNT_VM1"].replace("\\n", "\n")

def run(seed, restriction, nets, mode, extra, fail_p=0.15, shared=(), timeout=90):
    rnd = random.Random(seed)
    durs = {}
    stats = {}
    def duration_fn(sname, wid, index, node):
        return durs.setdefault((sname, wid, index), rnd.choice([0.01, 0.03, 0.12, 0.25]))
    def status_fn(sname, wid, index, node):
        return stats.setdefault((sname, wid, index), "FAIL" if (rnd.random() < fail_p and "stateless.noop" not in sname) else "PASS")
    sim = Sim(status_fn=status_fn, duration_fn=duration_fn, shared_states=shared)
    params = {"nets": nets, "test_timeout": 100}
    params.update(extra)
    err = None
    with Env(sim) as env:
        if mode == "flat":
            graph = env.load_flat(restriction, params)
        else:
            graph = env.load_full("only %s\n" % restriction, params)
        tparams = {"test_timeout": 100}
        tparams.update(extra)
        try:
            env.traverse(graph, tparams, timeout=timeout)
        except BaseException as e:
            err = e
            traceback.print_exc()
    return sim, graph, err

def analyze(sim, graph, err, max_tries=1, max_conc=None):
    issues = []
    if err is not None:
        issues.append(("error", repr(err)))
    max_conc = max_conc or max_tries
    counts = collections.Counter()
    running = collections.Counter()
    failed_producers = set()
    produced = {}
    for e in sim.events:
        if e[0] == "start":
            _, t, wid, sname, uid, missing, locs, nets = e
            counts[sname] += 1
            running[sname] += 1
            if running[sname] > max_conc:
                issues.append(("concurrency", sname, running[sname]))
            for (sk, l, prod, rem) in missing:
                if prod or rem:
                    issues.append(("missing", t, wid, sname, sk, l, prod, rem))
        elif e[0] == "end":
            running[e[3]] -= 1
            if e[6]:
                issues.append(("removed-in-use", e))
    for sname, c in counts.items():
        if c > max_tries:
            issues.append(("overrun", sname, c))
    # leaves executed
    for n in graph.nodes:
        if n.is_flat() or n.is_shared_root():
            continue
    return issues, counts

if __name__ == "__main__":
    restriction, nets, mode = sys.argv[1], sys.argv[2], sys.argv[3]
    seeds = range(int(sys.argv[4]), int(sys.argv[5]))
    extra = dict(kv.split("=") for kv in sys.argv[6:])
    mt = int(extra.get("max_tries", 1))
    mc = int(extra.get("max_concurrent_tries", mt))
    for seed in seeds:
        sim, graph, err = run(seed, restriction, nets, mode, extra)
        issues, counts = analyze(sim, graph, err, mt, mc)
        print("seed", seed, "tests", sum(counts.values()), "issues", len(issues))
        for i in issues:
            print("    ", i)
