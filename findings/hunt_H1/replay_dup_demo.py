"""
C10: replaying a previous job with max_tries=3 where the leaf test failed once before and keeps failing.
Tries remaining = 3 - 1 (previous) = 2, so the test has to be executed exactly twice in this run,
no matter how many workers traverse the graph.

Exit 1 if the number of executions depends on the number of workers / differs from 2.
"""
import sys
from harness import *

SHARED_STATES = {("image1_vm1", "install"), ("image1_vm1", "customize"), ("vm1", "on_customize")}


def scenario(nets):
    sim = Sim(status_fn=lambda s, w, i, n: "FAIL", duration_fn=lambda *a: 0.5, shared_states=SHARED_STATES)
    params = {"nets": nets, "test_timeout": 100, "replay": "previous_job", "max_tries": "3"}
    with Env(sim) as env:
        graph = env.load_full("only normal\nonly tutorial1\n", params)
        leaf = graph.get_nodes(param_val="tutorial1.+net1$", unique=True)
        # the previous job ran the test on net1 and it failed
        env.runner.previous_results += [{"name": "1-" + leaf.params["name"], "status": "FAIL", "time_elapsed": 1}]
        env.traverse(graph, params)
    runs = [(e[2], e[4]) for e in sim.events if e[0] == "start" and "tutorial1" in e[3]]
    print(f"workers='{nets}': previous tries=1 max_tries=3 -> executions in this run={len(runs)} {runs}")
    print("    statuses counted for the test:", [r["status"] for r in leaf.shared_results])
    return len(runs)


counts = [scenario("net1"), scenario("net1 net2"), scenario("net1 net2 net3")]
if counts != [2, 2, 2]:
    print("VIOLATION: executions per worker count", counts, "expected [2, 2, 2]")
    sys.exit(1)
print("OK")
