"""
C05: a removable state (unset_mode f.) is removed by its producer while a dependant test on a worker of
ANOTHER cluster is still running from it. Default pool_scope (own swarm cluster shared) makes setup reusable
across clusters (see test_trace_work_remote), retries are enabled with max_tries=2 stop_status=pass.

The same schedule with two localhost (lxc) workers keeps the state until the dependant is done.

Exit 1 if the state is removed while a dependant using it is still running.
"""
import os, sys
if os.environ.get("PYTHONHASHSEED") != "0":
    os.environ["PYTHONHASHSEED"] = "0"
    os.execv(sys.executable, [sys.executable] + sys.argv)
from harness import *

# everything below the gui tests is available from the shared pool
SHARED_STATES = {("image1_vm1", "install"), ("image1_vm1", "customize"), ("image1_vm1", "connect"),
                 ("image1_vm1", "linux_virtuser"), ("image1_vm2", "install"), ("image1_vm2", "customize"),
                 ("image1_vm2", "windows_virtuser")}


def scenario(nets):
    slow = nets.split()[1]

    def duration_fn(sname, wid, index, node):
        # the second worker is slow with the dependant of the removable state
        if "implicit_both.guisetup.noop" in sname and wid == slow:
            return 2.0
        if "explicit_noop" in sname:
            return 0.3
        return 0.05

    sim = Sim(duration_fn=duration_fn, shared_states=SHARED_STATES)
    params = {"nets": nets, "test_timeout": 100, "max_tries": "2", "stop_status": "pass"}
    with Env(sim) as env:
        graph = env.load_full("only leaves\nonly client_noop,client_clicked,implicit_both,explicit_noop\n", params)
        env.traverse(graph, params)
    bad = []
    print(f"--- workers: {nets}")
    for e in sim.events:
        if e[0] == "start" and ("noop" in e[3]):
            print(f"  {e[1]:5.2f} {e[2]:14s} starts   {e[3]} ({e[4]})")
        elif e[0] == "end" and ("noop" in e[3]):
            print(f"  {e[1]:5.2f} {e[2]:14s} finished {e[3]} ({e[4]}) {e[5]}" + (f"   !! state {e[6]} was removed while the test was running" if e[6] else ""))
            if e[6]:
                bad.append(e)
        elif e[0] == "unset":
            print(f"  {e[1]:5.2f} {e[2]:14s} REMOVES  {e[4]} (reversing {e[3]})")
    return bad


bad_local = scenario("net1 net2")
bad_remote = scenario("cluster1.net6 cluster2.net6")
if bad_local or bad_remote:
    print("VIOLATION: removable state removed while a dependant was running:", [(e[2], e[3]) for e in bad_local + bad_remote])
    sys.exit(1)
print("OK")
