"""
C01 / C08: a setup test that ends with the (successful) status WARN produced its state on the
worker that ran it, but that worker's pool is not offered as a source to dependants on other workers.

Exit 1 if a test starts on a worker without its required state being available in any location it
was told to look at, although the state was produced successfully in this very run.
"""
import sys
from harness import *

def status_fn(sname, wid, index, node):
    # the setup test logs a warning (avocado turns a passing test with warnings into WARN)
    return "WARN" if "on_customize" in sname else "PASS"

def duration_fn(sname, wid, index, node):
    return 0.3 if "tutorial" in sname else 0.05

sim = Sim(status_fn=status_fn, duration_fn=duration_fn)
with Env(sim) as env:
    graph = env.load_full("only normal\nonly tutorial1,tutorial2\n", {"nets": "net1 net2", "test_timeout": 100})
    env.traverse(graph, {"test_timeout": 100})

bad = []
for event in sim.events:
    if event[0] == "end":
        print(f"  {event[1]:6.2f} {event[2]} finished {event[3]} -> {event[5]}")
    if event[0] == "start":
        _, t, wid, sname, uid, missing, locations, nets = event
        print(f"  {t:6.2f} {wid} starts   {sname}  locations={locations}")
        for (state_key, locs, _p, _r) in missing:
            producers = [w for w, states in sim.own.items() if state_key in states]
            print(f"         !! state {state_key} not in own pool of {wid} nor in any given location {locs}; it is in the pool of {producers}")
            if producers:
                bad.append((wid, sname, state_key))
if bad:
    print("VIOLATION:", bad)
    sys.exit(1)
print("OK")
