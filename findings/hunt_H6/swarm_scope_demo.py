"""C01: with remote workers and a pool scope that excludes other hosts of the same swarm (no "swarm" in pool_scope)
a worker still treats setup finished by a sibling host of its swarm as its own and skips it, while the state
backend is not allowed (pool_scope) to fetch it from that sibling.

Input: nets="cluster1.net6 cluster1.net7" (two remote hosts of one swarm), pool_scope="own shared" or "own cluster shared",
       or nets="net1 cluster1.net6" (a local container and a remote host) with pool_scope="own swarm shared",
       only leaves..tutorial2, install/customize of vm1 provided in the shared pool, empty own pools.
The lxc counterpart (nets="net1 net2") is handled correctly (each worker provides its own setup) and is shown for contrast.
Exits 1 if a test starts without its required state in any location it is told about AND allowed to use.
"""
import os, sys
sys.path.insert(0, os.path.join(os.getcwd(), "hunt"))
from harness import *

def job(nets, scope):
    world = World()
    patchers = install(world)
    params = {"nets": nets, "shared_pool": SHARED, "test_timeout": 100, "pool_scope": scope}
    for st in ["install", "customize"]:
        world.pool("").add(("vm1/image1", st))
    graph = load_flat("leaves..tutorial2", params)
    runner = make_runner(world)
    world.durations = {"leaves": 1.0}
    traverse(graph, runner, params)
    for p in patchers:
        p.stop()
    print(f"nets={nets!r} pool_scope={scope!r}")
    for e in world.events:
        if e[0] == "start":
            print(f"  {e[1]} runs {e[2].split('.vm1')[0]:45} pool_scope={e[3]['pool_scope']!r} get_location_vm1={e[3].get('get_location_vm1')}")
        elif e[0] == "end":
            print(f"  {e[1]} ends {e[2].split('.vm1')[0]:45} {e[3]}")
    return world.violations

bad = []
bad += job("net1 net2", "own shared")
bad += job("cluster1.net6 cluster1.net7", "own shared")
bad += job("cluster1.net6 cluster1.net7", "own cluster shared")
# mixed local container and remote host: no "cluster" in the scope so nothing may cross the swarm border
bad += job("net1 cluster1.net6", "own swarm shared")
if bad:
    for v in bad:
        print("VIOLATION", v)
    sys.exit(1)
print("OK: every test started with its required states available")
