"""Shared harness for the H6 hunt demos: drives the REAL graph/node/runner code with a mocked environment.

World model: states live in pools; pool "" is the shared pool, pool "<worker id>" is the own (swarm_pool)
of that worker. A state is identified by (object key e.g. "vm1/image1" or "vm1", state name).
"""
import os, sys, re, asyncio, logging
sys.path.insert(0, os.getcwd())
import avocado_i2n
assert os.path.dirname(avocado_i2n.__file__).startswith(os.getcwd()), avocado_i2n.__file__
import unittest.mock as mock
from aexpect.exceptions import ShellCmdError
from virttest.utils_params import Params

from avocado_i2n.cartgraph import TestGraph, TestNode, TestWorker, TestSwarm
from avocado_i2n.plugins.runner import TestRunner
from avocado_i2n.plugins.loader import TestLoader
from avocado_i2n import params_parser as param

if not os.environ.get("H6_LOG"):
    logging.disable(logging.CRITICAL)

VM_STRS = {"vm1": "only CentOS\n", "vm2": "only Win10\n", "vm3": "only Ubuntu\n"}
SHARED = "/mnt/local/images/shared"
SWARM = "/mnt/local/images/swarm"


class World:
    def __init__(self):
        self.pools = {}          # pool id -> set of (objkey, state)
        self.events = []         # chronological log
        self.violations = []
        self.durations = {}      # regex on shortname -> duration
        self.statuses = {}       # regex on "shortname@worker" -> list of statuses to pop or a single status
        self.running = {}        # node name -> worker id
        self.door_calls = []     # (action, worker id, params)
        self.current_session = None
        self.door_action = "check"
        self.door_params = None
        self.default_duration = 0.05
        self.pools_at = {}
        self.producers = {}
        self.running_params = {}

    def pool(self, pid):
        return self.pools.setdefault(pid, set())

    def log(self, *args):
        self.events.append(args)


def state_objects(params, do):
    """Yield (objkey, state, locations, scopes) for each object with a {do}_state in run params as the reader would."""
    params = Params(params)
    for net in params.objects("nets"):
        net_params = params.object_params(net)
        for vm in net_params.objects("vms"):
            vm_params = net_params.object_params(vm)
            for image in vm_params.objects("images"):
                image_params = vm_params.object_params(image).object_params("images")
                st = image_params.get(f"{do}_state")
                if st:
                    loc = "show" if do == "check" else do
                    yield (f"{vm}/{image}", st, image_params.get(f"{loc}_location", ""), image_params.get("pool_scope", ""), image_params)
            vm_typed = vm_params.object_params("vms")
            st = vm_typed.get(f"{do}_state")
            if st:
                loc = "show" if do == "check" else do
                yield (vm, st, vm_typed.get(f"{loc}_location", ""), vm_typed.get("pool_scope", ""), vm_typed)


def worker_of(params):
    return params["nets"] if "." not in params.get("name", "") else None


def make_runner(world):
    job = mock.MagicMock()
    job.logdir = "."
    job.timeout = 6000
    job.result = mock.MagicMock()
    job.result.tests = []
    job.config = {"param_dict": {}, "vm_strs": VM_STRS, "tests_str": ""}
    runner = TestRunner()
    runner.job = job
    runner.status_server = job
    return runner


def available_sources(world, wid, objkey, state, locations, scopes, params):
    """Where could the reader find the state given the written parameters (generous model: any listed source in scope)."""
    found = []
    scopes = scopes.split()
    if "own" in scopes and (objkey, state) in world.pool(wid):
        found.append("own")
    for loc in locations.split():
        src, path = loc.split(":")
        if src == "":
            if "shared" in scopes and (objkey, state) in world.pool(""):
                found.append(loc)
        else:
            # scope classification by the REAL backend code
            from avocado_i2n.states.pool import SourcedStateBackend
            scope = SourcedStateBackend.get_source_scope(path, Params(params).object_params(src), Params(params))
            if scope == "own":
                continue
            if scope in scopes and (objkey, state) in world.pool(src):
                found.append(loc)
    return found


def install(world):
    """Return a list of patchers that mock the environment for the given world."""

    async def run_test_task(self, node):
        if not hasattr(self.job, "result"):
            self.job.result = mock.MagicMock()
            self.job.result.tests = []
        wid = node.started_worker.id
        shortname = node.params["shortname"]
        name = node.params["name"]
        uid = node.id_test.uid
        node.regenerate_vt_parameters()
        params = Params(dict(node.params))
        world.log("start", wid, shortname, dict(params))
        # C08: own worker
        if params["nets"] != wid and not name.endswith(wid):
            world.violations.append(("C08-foreign-worker", wid, shortname))
        missing = []
        for objkey, st, locs, scopes, oparams in state_objects(params, "get"):
            if st in ["root", "0root", "boot", "0boot"]:
                continue
            src = available_sources(world, wid, objkey, st, locs, scopes, oparams)
            world.log("get", wid, shortname, objkey, st, locs, src)
            named = {l.split(":")[0] for l in locs.split()} - {""}
            prod = set(world.producers.get((objkey, st), set()))
            if named - prod:
                world.violations.append(("C08-named-nonproducer", wid, shortname, objkey, st, sorted(named - prod), sorted(prod)))
            if prod - named:
                world.violations.append(("C08-unnamed-producer", wid, shortname, objkey, st, sorted(prod - named), sorted(named)))
            if locs and ":" + SHARED not in locs.split():
                world.violations.append(("C08-no-shared", wid, shortname, objkey, st, locs))
            for n in named:
                for k in ["nets_shell_host", "nets_shell_port", "nets_gateway", "nets_host"]:
                    w = [w for sw in TestSwarm.run_swarms.values() for w in sw.workers if w.id == n]
                    if w and params.get(f"{k}_{n}") != w[0].params.get(k):
                        world.violations.append(("C08-access-params", wid, shortname, n, k, params.get(f"{k}_{n}"), w[0].params.get(k)))
            if not src:
                missing.append((objkey, st, locs))
        if missing:
            world.log("missing", wid, shortname, missing)
            world.pools_at[id(world.events[-1])] = {k: set(v) for k, v in world.pools.items()}
        world.running[name] = wid
        world.running_params[name] = (wid, params)
        dur = world.default_duration
        for rx, d in world.durations.items():
            if re.search(rx, shortname + "@" + wid):
                dur = d
        await asyncio.sleep(dur)
        status = "PASS"
        for rx, sts in world.statuses.items():
            if re.search(rx, shortname + "@" + wid):
                status = sts.pop(0) if isinstance(sts, list) and sts else (sts if isinstance(sts, str) else "PASS")
        if missing and status == "PASS":
            status = "ERROR"  # a real test would abort on missing setup (get_mode ra)
            world.violations.append(("C01-missing-state", wid, shortname, missing))
        if status in ["PASS", "WARN"]:
            for objkey, st, locs, scopes, oparams in state_objects(params, "set"):
                world.pool(wid).add((objkey, st))
                world.producers.setdefault((objkey, st), set()).add(wid)
        del world.running[name]
        del world.running_params[name]
        world.log("end", wid, shortname, status)
        tid = type("Mock", (), {"uid": uid, "name": name})()
        self.job.result.tests.append({"name": tid, "status": status, "time_elapsed": "1", "logdir": "."})

    class Door:
        DUMP_CONTROL_DIR = "/tmp"

        @staticmethod
        def set_subcontrol_parameter(path, key, value):
            world.door_action = value
            return path

        @staticmethod
        def set_subcontrol_parameter_dict(path, key, value):
            world.door_params = value
            return path

        @staticmethod
        def run_subcontrol(session, path):
            action, params = world.door_action, Params(dict(world.door_params))
            wid = world.current_session
            world.door_calls.append((action, wid, params))
            if action == "check":
                ok = True
                for objkey, st, locs, scopes, oparams in state_objects(params, "check"):
                    if st in ["root", "0root", "boot", "0boot"]:
                        continue
                    src = available_sources(world, wid, objkey, st, locs, scopes, oparams)
                    world.log("check", wid, params["shortname"], objkey, st, locs, src)
                    if not src:
                        ok = False
                if not ok:
                    raise ShellCmdError("cmd", 1, "AssertionError")
            elif action == "unset":
                for objkey, st, locs, scopes, oparams in state_objects(params, "unset"):
                    removed = []
                    if "own" in scopes.split() and (objkey, st) in world.pool(wid):
                        world.pool(wid).discard((objkey, st)); removed.append(wid)
                    world.log("unset", wid, params["shortname"], objkey, st, removed, dict(world.running))
                    for rname, (rwid, rparams) in world.running_params.items():
                        for o2, s2, _, _, _ in state_objects(rparams, "get"):
                            if (o2, s2) == (objkey, st):
                                world.violations.append(("C05-unset-while-running", wid, objkey, st, rwid, rname[:60]))
            elif action == "get":
                for objkey, st, locs, scopes, oparams in state_objects(params, "get"):
                    world.log("sync-get", wid, params["shortname"], objkey, st, locs, scopes)

    def get_session(self):
        world.current_session = self.id
        return mock.MagicMock()

    patchers = [
        mock.patch("avocado_i2n.cartgraph.node.door", Door),
        mock.patch.object(TestWorker, "get_session", get_session),
        mock.patch.object(TestRunner, "run_test_task", run_test_task),
        mock.patch("avocado_i2n.plugins.runner.SpawnerDispatcher", mock.MagicMock()),
    ]
    for p in patchers:
        p.start()
    return patchers


def load_flat(restriction, params, vm_strs=None):
    vm_strs = vm_strs or VM_STRS
    graph = TestGraph()
    graph.restrs.update(vm_strs)
    loaded = TestGraph.parse_flat_nodes(restriction)
    for node in loaded:
        node.update_restrs(vm_strs)
    graph.new_nodes(loaded)
    graph.parse_shared_root_from_object_roots()
    graph.new_workers(TestGraph.parse_workers(params))
    return graph


def traverse(graph, runner, params, workers=None, timeout=120):
    graph.runner = runner
    for w in graph.workers.values():
        w.spawner = mock.MagicMock()
    ws = workers or sorted(graph.workers.values(), key=lambda x: x.params["name"])
    loop = asyncio.new_event_loop()
    asyncio.set_event_loop(loop)
    try:
        loop.run_until_complete(asyncio.wait_for(asyncio.gather(*[graph.traverse_object_trees(w, params) for w in ws]), timeout))
    finally:
        loop.close()
