"""C01: a state found by the scan of ONE worker in its OWN pool makes ALL workers skip the producer,
but the dependants of the other workers are only told about the shared pool.

Input: two consecutive default jobs (pool_filter=reuse, pool_scope=own swarm cluster shared) on workers net1 net2:
  job 1: only leaves..tutorial1   (net1 produces vm1 state on_customize in its own pool)
  job 2: only leaves..tutorial2   (two leaves, both start from on_customize)
Exits 1 if a test of job 2 starts without its required state being in any location it was told about.
"""
import os, sys
sys.path.insert(0, os.path.join(os.getcwd(), "hunt"))
from harness import *

world = World()
install(world)
params = {"nets": "net1 net2", "shared_pool": SHARED, "test_timeout": 100}
for st in ["install", "customize"]:
    world.pool("").add(("vm1/image1", st))   # externally provided base setup in the shared pool

def job(restriction):
    start = len(world.events)
    world.producers = {}   # only the producers of the current job are expected to be named
    graph = load_flat(restriction, params)
    runner = make_runner(world)
    world.durations = {"leaves": 0.4}
    traverse(graph, runner, params)
    for e in world.events[start:]:
        if e[0] == "start":
            print(f"  {e[1]} runs {e[2].split('.vm1')[0]:45} get_location_vm1={e[3].get('get_location_vm1')}")
        elif e[0] == "end":
            print(f"  {e[1]} ends {e[2].split('.vm1')[0]:45} {e[3]}")

print("job 1 (leaves..tutorial1)")
job("leaves..tutorial1")
print("pools after job 1:", {k: sorted(v) for k, v in world.pools.items()})
assert not world.violations, world.violations
print("job 2 (leaves..tutorial2)")
job("leaves..tutorial2")
print("pools after job 2:", {k: sorted(v) for k, v in world.pools.items()})
if world.violations:
    for v in world.violations:
        print("VIOLATION", v)
    sys.exit(1)
print("OK: every test started with its required states available")
