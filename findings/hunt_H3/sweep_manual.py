import sys, os
sys.path.insert(0, os.path.join(os.getcwd(), "hunt"))
from harness import *
import harness
import logging, re, ast
logging.disable(logging.CRITICAL)

def short(s):
    return re.sub(r"\.(virtio_rng|qcow2).*?(x86_64|i386)", "", s)

cases = ast.literal_eval(sys.argv[1])
for case in cases:
    config = base_config()
    for k, v in case.get("vms_params", {}).items():
        config["vms_params"][k] = v
    config["param_dict"].update(case.get("param_dict", {}))
    if "vm_strs" in case:
        config["vm_strs"] = case["vm_strs"]
    harness.FAIL[:] = case.get("fail", [])
    for step in case["steps"]:
        print("=== STEP", step, case)
        try:
            ret = call(getattr(intertest_setup, step), config, tag="0m0")
            print("RET", ret)
        except BaseException as e:
            print("EXC", type(e).__name__, str(e)[:300])
        for r in RUNS:
            extra = {k: v for k, v in r["_params"].items() if re.match(case.get("show", "^$"), k)}
            print("  RUN", r["_prefix"], short(r["shortname"]), "| vms", r["vms"], "| nets", r["nets"], "| action", r["vm_action"], extra)
        for s in STATES:
            print("  STATE", s[0], s[1], s[2], s[3], short(s[4]))
