"""Shared recording harness for hunt demos (drives the real project code with mocked environment)."""
import os, sys, re, asyncio, contextlib, logging
import unittest.mock as mock

sys.path.insert(0, os.getcwd())
import tempfile
os.environ["HOME"] = tempfile.mkdtemp(prefix="hunt_home_")  # do not depend on overwrite files outside of the worktree
os.makedirs(os.environ["HOME"], exist_ok=True)
sys.path.insert(1, os.path.join(os.getcwd(), "selftests", "isolation"))
import avocado_i2n
assert os.path.abspath(avocado_i2n.__file__).startswith(os.getcwd() + os.sep), avocado_i2n.__file__

from aexpect.exceptions import ShellCmdError
from virttest import utils_params
from avocado_i2n import intertest_setup
from avocado_i2n.plugins.runner import TestRunner

RUNS = []      # dicts of executed tests
STATES = []    # (action, key, state, nets, shortname)
FAIL = []      # regexes of shortnames to fail
CHECK_RESULT = {"default": True}


@contextlib.contextmanager
def new_job(config):
    job = mock.MagicMock()
    job.logdir = "."
    job.timeout = 60
    job.config = config
    job.result.tests = []
    loader, runner = config["graph"].l, config["graph"].r
    loader.logdir = job.logdir
    runner.job = job
    yield job


async def rec_run_test_task(self, node):
    if not hasattr(self.job, "result"):
        self.job.result = mock.MagicMock()
        self.job.result.tests = []
    p = node.params
    RUNS.append({k: p.get(k) for k in ("shortname", "name", "vms", "nets", "vm_action", "type", "main_vm",
                                      "get_state_images", "set_state_images", "unset_mode", "object_suffix")} | {"_params": dict(p), "_prefix": node.prefix})
    await asyncio.sleep(0.01)
    status = "PASS"
    for rx in FAIL:
        if re.search(rx, p["shortname"]):
            status = "FAIL"
    mocktestid = type("Mock", (), {"uid": node.id_test.uid, "name": p["name"]})()
    self.job.result.tests.append({"name": mocktestid, "status": status, "time_elapsed": "1", "logdir": "."})
    return status == "PASS"


class RecStateControl(object):
    action = "check"
    states_params = {}

    @staticmethod
    def run_subcontrol(session, mod_control_path):
        do = RecStateControl.action
        params = RecStateControl.states_params
        for key, val in params.items():
            if key.startswith(f"{do}_state_") and val:
                STATES.append((do, key, val, params.get("nets"), params.get("shortname")))
        if do == "check" and not CHECK_RESULT["default"]:
            raise ShellCmdError(1, "command", "AssertionError")

    @staticmethod
    def set_subcontrol_parameter(_, __, do):
        RecStateControl.action = do

    @staticmethod
    def set_subcontrol_parameter_dict(_, __, node_params):
        RecStateControl.states_params = node_params


def patches():
    from avocado_i2n.cartgraph import TestWorker
    return [
        mock.patch('avocado_i2n.intertest_setup.new_job', new_job),
        mock.patch('avocado_i2n.cartgraph.worker.remote.wait_for_login', mock.MagicMock()),
        mock.patch('avocado_i2n.cartgraph.node.door', RecStateControl),
        mock.patch('avocado_i2n.cartgraph.worker.TestWorker.start', mock.MagicMock()),
        mock.patch('avocado_i2n.plugins.runner.SpawnerDispatcher', mock.MagicMock()),
        mock.patch.object(TestRunner, 'run_test_task', rec_run_test_task),
    ]


def base_config():
    config = {}
    config["available_vms"] = {"vm1": "only CentOS\n", "vm2": "only Win10\n", "vm3": "only Ubuntu\n"}
    config["available_restrictions"] = ["leaves", "normal", "minimal"]
    config["param_dict"] = {"nets": "net1"}
    config["vm_strs"] = config["available_vms"].copy()
    config["tests_str"] = {}
    config["tests_params"] = utils_params.Params()
    config["vms_params"] = utils_params.Params()
    return config


def call(func, config, *args, **kwargs):
    del RUNS[:]
    del STATES[:]
    with contextlib.ExitStack() as stack:
        for p in patches():
            stack.enter_context(p)
        return func(config, *args, **kwargs)
