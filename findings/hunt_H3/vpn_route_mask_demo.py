"""C19: configure_vpn_route drops the remote netmask for every middle hop (key typo 'vpnconn_remote_mask')."""
import sys, os
sys.path.insert(0, os.path.join(os.getcwd(), "hunt"))
from vmnet_harness import *
from avocado_i2n import vmnet

p = base_params()
p["vms"] = "vm1 vm2 vm3 vm4"
p["ip_b1_vm3"] = "10.3.0.1"
p["ip_b2_vm3"] = "172.19.0.1"
p["ip_b1_vm4"] = "10.4.0.1"
p["ip_b2_vm4"] = "172.20.0.1"
with mock.patch.object(vmnet.VMTunnel, "configure_on_endpoint", mock.MagicMock()):
    net, env = make_net(p)
    vms = [env.mock_vms[n] for n in ("vm1", "vm2", "vm3", "vm4")]
    for i in range(3):
        net.configure_tunnel_between_vms("vpn%i" % (i + 1), vms[i], vms[i + 1],
                                         local1={"type": "nic", "nic": "lan_nic"},
                                         remote1={"type": "custom", "nic": "lan_nic"},
                                         peer1={"type": "ip", "nic": "internet_nic"}, auth=None)
    net.configure_vpn_route(vms, ["vpn1", "vpn2", "vpn3"],
                            remote1={"type": "custom", "nic": "lan_nic"},
                            peer1={"type": "ip", "nic": "internet_nic"}, auth=None)

bad = 0
for name in ("vpn1fwd", "vpn2fwd", "vpn3fwd"):
    t = net.tunnels[name]
    l, r = t.left_params, t.right_params
    print("%s: left  lan %s/%s remote %s/%s" % (name, l.get("vpnconn_lan_net"), l.get("vpnconn_lan_netmask"),
                                                l.get("vpnconn_remote_net"), l.get("vpnconn_remote_netmask")))
    print("%s: right lan %s/%s remote %s/%s" % (name, r.get("vpnconn_lan_net"), r.get("vpnconn_lan_netmask"),
                                                r.get("vpnconn_remote_net"), r.get("vpnconn_remote_netmask")))
    for params in (l, r):
        for kind in ("lan", "remote"):
            if params.get("vpnconn_%s_net" % kind) and not params.get("vpnconn_%s_netmask" % kind):
                print("  VIOLATION: %s has %s net %s without a netmask" % (name, kind, params.get("vpnconn_%s_net" % kind)))
                bad = 1
    if t.right_net is not None and t.right_net.netmask is None:
        print("  VIOLATION: %s right netconfig %s has netmask None (prefix %s)" % (name, t.right_net.net_ip, t.right_net.mask_bit))
        bad = 1
sys.exit(bad)
