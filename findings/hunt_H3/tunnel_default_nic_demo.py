"""C19: minimal documented end point configurations ({'type': ...} only) crash with KeyError in the right-hand derivation."""
import sys, os
sys.path.insert(0, os.path.join(os.getcwd(), "hunt"))
from vmnet_harness import *
from avocado_i2n import vmnet

full = dict(local1={"type": "nic", "nic": "lan_nic"}, remote1={"type": "custom", "nic": "lan_nic"},
            peer1={"type": "ip", "nic": "internet_nic"})
cases = {
    "local1 without nic": dict(full, local1={"type": "nic"}),
    "remote1 without nic": dict(full, remote1={"type": "custom"}),
    "peer1 (ip) without nic": dict(full, peer1={"type": "ip"}),
    "peer1 (dynip) without nic": dict(full, peer1={"type": "dynip"}),
}

def build(kwargs):
    with mock.patch.object(vmnet.VMTunnel, "configure_on_endpoint", mock.MagicMock()):
        net, env = make_net(base_params())
        net.configure_tunnel_between_vms("vpn1", env.mock_vms["vm1"], env.mock_vms["vm2"], auth=None, **kwargs)
        t = net.tunnels["vpn1"]
        keys = sorted(k for k in list(t.left_params) + list(t.right_params) if k.startswith("vpnconn"))
        return {(side, k): getattr(t, side + "_params")[k] for side in ("left", "right")
                for k in getattr(t, side + "_params") if k.startswith("vpnconn") or k.startswith("vpn_side")}

reference = build(full)
bad = 0
for name, kwargs in cases.items():
    try:
        result = build(kwargs)
    except KeyError as error:
        print("VIOLATION: %s -> KeyError %s (the constructor itself defaults the nic to the same role)" % (name, error))
        bad = 1
        continue
    expected = reference if "dynip" not in name else build(dict(full, peer1={"type": "dynip", "nic": "internet_nic"}))
    if result != expected:
        print("VIOLATION: %s -> parameters differ from the explicit default nic" % name)
        bad = 1
    else:
        print("ok: %s -> same parameters as with the explicit default nic" % name)
sys.exit(bad)
