"""C19: documented auth type 'none' is rejected by VMTunnel although 'pubkey', 'psk', 'none' are the documented types."""
import sys, os
sys.path.insert(0, os.path.join(os.getcwd(), "hunt"))
from vmnet_harness import *
from avocado_i2n import vmnet

bad = 0
results = {}
for auth in (None, {"type": "none"}, {"type": "psk", "psk": "s", "left_id": "a", "right_id": "b"}, {"type": "bogus"}):
    with mock.patch.object(vmnet.VMTunnel, "configure_on_endpoint", mock.MagicMock()):
        net, env = make_net(base_params())
        try:
            net.configure_tunnel_between_vms("vpn1", env.mock_vms["vm1"], env.mock_vms["vm2"],
                                             local1={"type": "nic", "nic": "lan_nic"},
                                             remote1={"type": "custom", "nic": "lan_nic"},
                                             peer1={"type": "ip", "nic": "internet_nic"}, auth=auth)
            t = net.tunnels["vpn1"]
            results[str(auth)] = (t.left_params["vpnconn_key_type"], t.right_params["vpnconn_key_type"])
        except ValueError as error:
            results[str(auth)] = "ValueError: %s" % error
    print("auth=%s -> %s" % (auth, results[str(auth)]))

if results[str({"type": "none"})] != ("NONE", "NONE"):
    print("VIOLATION: documented auth type 'none' is not accepted (the error message itself lists 'none' as valid)")
    bad = 1
if not str(results[str({"type": "bogus"})]).startswith("ValueError"):
    print("VIOLATION: unsupported auth type accepted")
    bad = 1
sys.exit(bad)
