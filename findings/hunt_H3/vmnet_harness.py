import os, sys
sys.path.insert(0, os.getcwd())
import unittest.mock as mock
import avocado_i2n
assert os.path.abspath(avocado_i2n.__file__).startswith(os.getcwd() + os.sep), avocado_i2n.__file__
from virttest import utils_params
from avocado_i2n.vmnet import VMNetwork


class Env:
    """Mock env the way selftests/isolation/test_vm_network.py does it."""
    def __init__(self):
        self.mock_vms = {}
    def get_vm(self, vm_name):
        return self.mock_vms.get(vm_name)
    def create_vm(self, vm_type, target, vm_name, vm_params, bindir):
        vm = mock.MagicMock(name=vm_name)
        vm.name = vm_name
        vm.params = vm_params
        self.mock_vms[vm_name] = vm
        return vm


def base_params():
    p = utils_params.Params()
    p["vms"] = "vm1 vm2"
    p["roles"] = "node1 node2"
    p["node1"] = "vm1"
    p["node2"] = "vm2"
    p["nics"] = "b1 b2"
    p["nic_roles"] = "internet_nic lan_nic"
    p["internet_nic"] = "b1"
    p["lan_nic"] = "b2"
    p["mac"] = "00:00:00:00:00:00"
    p["netmask_b1"] = "255.255.0.0"
    p["netmask_b2"] = "255.255.0.0"
    p["ip_b1_vm1"] = "10.1.0.1"
    p["ip_b2_vm1"] = "172.17.0.1"
    p["ip_b1_vm2"] = "10.2.0.1"
    p["ip_b2_vm2"] = "172.18.0.1"
    p["netdst_b1_vm1"] = "virbr0"
    p["netdst_b2_vm1"] = "virbr1"
    p["netdst_b1_vm2"] = "virbr2"
    p["netdst_b2_vm2"] = "virbr3"
    return p


def make_net(params):
    env = Env()
    for vm_name in params.objects("vms"):
        env.create_vm("qemu", None, vm_name, params.object_params(vm_name), "")
    return VMNetwork(params, env), env
