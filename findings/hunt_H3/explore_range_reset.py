import sys, os
sys.path.insert(0, os.path.join(os.getcwd(), "hunt"))
from vmnet_harness import *

p = base_params()
p["vms"] = "vm1 vm2 vm3"
p["ip_b1_vm3"] = "10.3.0.1"
p["ip_b2_vm3"] = "172.19.0.1"
p["netdst_b1_vm3"] = "virbr4"
p["netdst_b2_vm3"] = "virbr5"
p["os_type"] = "windows"
p["ip_provider_b2_vm1"] = "172.17.0.1"
net, env = make_net(p)
vm1, vm2, vm3 = (env.mock_vms[n] for n in ("vm1", "vm2", "vm3"))
lan = net.nodes["vm1"].interfaces["b2"].netconfig
net.reattach_interface(vm2, vm1)   # vm2.b1 -> vm1's lan
print(net)
net.change_network_address(lan, "172.30.0.0")
print(net)
net.reattach_interface(vm3, vm1)   # vm3.b1 -> vm1's lan
print(net)
for k, i in net.interfaces.items():
    print(k, i.ip, i.netconfig.net_ip, i.netconfig.has_interface(i))
