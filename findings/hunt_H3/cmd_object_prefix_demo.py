"""C11: restrictions for unknown objects are attributed to another object whose name is a prefix of the typed one."""
import sys, os
sys.path.insert(0, os.getcwd())
os.environ["HOME"] = os.path.join(os.getcwd(), "hunt", "home")  # do not depend on overwrite files outside of the worktree
os.makedirs(os.environ["HOME"], exist_ok=True)
sys.path.insert(1, os.path.join(os.getcwd(), "selftests", "isolation"))
import avocado_i2n
assert os.path.abspath(avocado_i2n.__file__).startswith(os.getcwd() + os.sep)
import logging
logging.disable(logging.CRITICAL)
import avocado_i2n.cmd_parser as cmd
import avocado_i2n.params_parser as param

print("available vms:", param.all_objects("vms"))
bad = 0
# none of these is a restriction of an available object (vm1, vm2, vm3 or nets)
for arg in ["only_vm11=CentOS", "no_vm1x=Fedora", "only_vm2_old=Win7", "only_netsx=cluster1", "no_nets2=net1"]:
    config = {"params": [arg]}
    try:
        cmd.params_from_cmd(config)
    except ValueError as error:
        print("ok: %s -> rejected: %s" % (arg, error))
        continue
    except Exception as error:
        print("VIOLATION: %s -> not rejected as unknown object but crashed later with %s: %s"
              % (arg, type(error).__name__, str(error).splitlines()[0]))
        bad = 1
        continue
    changed = {vm: s for vm, s in config["vm_strs"].items() if not s.startswith(("only ", "no "))}
    print("VIOLATION: %s -> accepted, vm strings %s, nets %r" % (arg, config["vm_strs"], config["param_dict"].get("nets")))
    bad = 1
# sanity: valid restrictions still work
config = {"params": ["only_vm1=Fedora", "no_vm2=Win7", "only_nets=cluster1..net6"]}
cmd.params_from_cmd(config)
assert config["vm_strs"]["vm1"] == "only Fedora\n" and config["vm_strs"]["vm2"] == "no Win7\n", config["vm_strs"]
assert config["param_dict"]["nets"] == "cluster1.net6", config["param_dict"]
sys.exit(bad)
