import sys, os, random, ipaddress, collections
sys.path.insert(0, os.path.join(os.getcwd(), "hunt"))
from vmnet_harness import *
from avocado_i2n.vmnet.netconfig import VMNetconfig
import logging
logging.disable(logging.CRITICAL)

random.seed(7)
problems = collections.Counter()
for trial in range(300):
    nvms = random.randint(1, 4)
    # pick disjoint random subnets
    subnets = []
    while len(subnets) < 4:
        prefix = random.randint(8, 28)
        net = ipaddress.ip_network("%d.%d.%d.%d/%d" % (random.randint(1, 223), random.randint(0, 255), random.randint(0, 255), random.randint(0, 255), prefix), strict=False)
        if any(net.overlaps(s) for s in subnets) or net.is_multicast or net.is_loopback:
            continue
        subnets.append(net)
    p = utils_params.Params()
    p["vms"] = " ".join("vm%d" % i for i in range(1, nvms + 1))
    p["mac"] = "00:00:00:00:00:00"
    used = collections.defaultdict(set)
    expected = {}
    for i in range(1, nvms + 1):
        nnics = random.randint(1, 3)
        nics = ["b%d" % j for j in range(nnics)]
        p["nics_vm%d" % i] = " ".join(nics)
        p["lan_nic_vm%d" % i] = nics[-1]
        p["internet_nic_vm%d" % i] = nics[0]
        for nic in nics:
            net = random.choice(subnets)
            size = net.num_addresses
            # dhcp range in upper half, static hosts in lower half
            lo, hi = size // 2, size - 2
            while True:
                off = random.randint(1, max(1, size // 2 - 1))
                if off not in used[net]:
                    used[net].add(off)
                    break
                if len(used[net]) >= size // 2 - 1:
                    off = None
                    break
            if off is None:
                continue
            ip = str(net.network_address + off)
            p["ip_%s_vm%d" % (nic, i)] = ip
            p["netmask_%s_vm%d" % (nic, i)] = str(net.netmask)
            p["netdst_%s_vm%d" % (nic, i)] = "br%s" % subnets.index(net)
            p["range_%s_vm%d" % (nic, i)] = "%d-%d" % (lo, min(hi, lo + 5))
            expected["vm%d.%s" % (i, nic)] = (ip, net)
    try:
        net_, env = make_net(p)
    except KeyError:
        continue
    except Exception as e:
        problems["construct %s %s" % (type(e).__name__, str(e)[:80])] += 1
        continue
    for key, (ip, net) in expected.items():
        iface = net_.interfaces[key]
        nc = iface.netconfig
        if ipaddress.ip_network("%s/%s" % (nc.net_ip, nc.netmask)) != net or int(nc.mask_bit) != net.prefixlen:
            problems["wrong netconfig"] += 1
        count = sum(1 for n in net_.netconfigs.values() if n.has_interface(iface))
        if count != 1:
            problems["iface in %d netconfigs" % count] += 1
    # mask conversions
    for nc in net_.netconfigs.values():
        c = VMNetconfig(); c.net_ip = nc.net_ip; c.mask_bit = nc.mask_bit
        if c.netmask != nc.netmask:
            problems["mask roundtrip"] += 1
        # allocation
        n = len(nc.range)
        got = [nc.get_allocatable_address() for _ in range(n)]
        if len(set(got)) != n or got[0] != nc.ip_start or got[-1] != nc.ip_end:
            problems["allocation"] += 1
        try:
            nc.get_allocatable_address()
            problems["no exhaustion"] += 1
        except IndexError:
            pass
        for g in got:
            if ipaddress.ip_address(g) not in ipaddress.ip_network("%s/%s" % (nc.net_ip, nc.mask_bit)):
                problems["alloc outside"] += 1
        # translation
        target = random.choice(subnets)
        if target.prefixlen <= int(nc.mask_bit):
            t = ipaddress.ip_network("%s/%s" % (target.network_address, nc.mask_bit), strict=False)
            for ip in list(nc.interfaces.keys()):
                tr = nc.translate_address(ip, str(t.network_address + 1))
                if int(ipaddress.ip_address(tr)) - int(t.network_address) != int(ipaddress.ip_address(ip)) - int(ipaddress.ip_address(nc.net_ip)):
                    problems["translate"] += 1
print(problems)
