"""C18: change_network_address() with the default (unchanged) netmask erases the netmask of every moved interface."""
import sys, os, ipaddress
sys.path.insert(0, os.path.join(os.getcwd(), "hunt"))
from vmnet_harness import *

p = base_params()
p["os_type"] = "windows"
p["vms"] = "vm1 vm2 vm3"
p["ip_b1_vm3"] = "10.3.0.1"
p["ip_b2_vm3"] = "172.19.0.1"
p["ip_provider_b2_vm1"] = "172.17.0.1"
net, env = make_net(p)
lan = net.nodes["vm1"].interfaces["b2"].netconfig
iface = net.nodes["vm1"].interfaces["b2"]
print("before: iface %s netmask param %r, netconfig %s/%s (prefix %s)" % (iface.ip, iface.params["netmask"], lan.net_ip, lan.netmask, lan.mask_bit))
net.change_network_address(lan, "172.30.0.0")   # only the address changes, new_mask=None means "keep the mask"
print("after:  iface %s netmask param %r, netconfig %s/%s (prefix %s)" % (iface.ip, iface.params["netmask"], lan.net_ip, lan.netmask, lan.mask_bit))

bad = 0
if iface.params["netmask"] != lan.netmask:
    print("VIOLATION: interface netmask parameter %r differs from its netconfig netmask %r" % (iface.params["netmask"], lan.netmask))
    bad = 1
# consequence: a forwarding (custom) tunnel for the moved LAN can no longer be matched against the moved interface
from avocado_i2n import vmnet
with mock.patch.object(vmnet.VMTunnel, "configure_on_endpoint", mock.MagicMock()):
    net.configure_tunnel_between_vms("fwd", env.mock_vms["vm2"], env.mock_vms["vm3"],
                                     local1={"type": "custom", "lnet": "172.30.0.0", "lmask": "255.255.0.0",
                                             "rnet": "172.19.0.0", "rmask": "255.255.0.0"},
                                     remote1={"type": "custom", "nic": "lan_nic"},
                                     peer1={"type": "ip", "nic": "internet_nic"}, auth=None)
try:
    connected = net.tunnels["fwd"].connects_nodes(net.nodes["vm1"], net.nodes["vm3"])
    print("tunnel forwarding 172.30.0.0/16 connects vm1 (172.30.0.1) and vm3:", connected)
    if not connected:
        bad = 1
except IndexError as error:
    print("VIOLATION: tunnel forwarding 172.30.0.0/16 cannot be matched with vm1: IndexError: %s" % error)
    bad = 1
sys.exit(bad)
