"""C18: change_network_address() translates the 'no gateway' placeholder 0.0.0.0 as if it was a host of the network."""
import sys, os, ipaddress
sys.path.insert(0, os.path.join(os.getcwd(), "hunt"))
from vmnet_harness import *

def consistent(net):
    ok = True
    for key, iface in net.interfaces.items():
        nc = iface.netconfig
        network = ipaddress.ip_network("%s/%s" % (nc.net_ip, nc.mask_bit))
        if ipaddress.ip_address(iface.ip) not in network or not nc.has_interface(iface) or net.netconfigs.get(nc.net_ip) is not nc:
            print("  inconsistent: %s has %s but its netconfig is %s" % (key, iface.ip, network))
            ok = False
    return ok

bad = 0
# same parameters as the project's own test_change_network_address: no ip_provider, i.e. no gateway in the LANs
p = base_params()
p["os_type"] = "windows"
net, env = make_net(p)
lan = net.netconfigs["172.17.0.0"]
print("gateway before:", lan.gateway)
net.change_network_address(lan, "172.19.0.0")
print("moving 172.17.0.0/16 -> 172.19.0.0/16: gateway after:", lan.gateway)
if lan.gateway != "0.0.0.0" and ipaddress.ip_address(lan.gateway) not in ipaddress.ip_network("%s/%s" % (lan.net_ip, lan.mask_bit)):
    print("VIOLATION: the netconfig now has a gateway %s which is neither undefined nor in %s/%s" % (lan.gateway, lan.net_ip, lan.mask_bit))
    bad = 1

net, env = make_net(p)
lan = net.netconfigs["172.17.0.0"]
try:
    net.change_network_address(lan, "172.16.0.0")
    print("moving 172.17.0.0/16 -> 172.16.0.0/16: gateway after:", lan.gateway)
except ipaddress.AddressValueError as error:
    print("VIOLATION: moving 172.17.0.0/16 -> 172.16.0.0/16 fails: AddressValueError: %s" % error)
    bad = 1
if not consistent(net):
    print("VIOLATION: the vm network is left inconsistent")
    bad = 1
sys.exit(bad)
