"""C18: change_network_address() forgets which addresses of the DHCP range are taken, the next allocation duplicates one."""
import sys, os, ipaddress, collections
sys.path.insert(0, os.path.join(os.getcwd(), "hunt"))
from vmnet_harness import *

p = base_params()
p["vms"] = "vm1 vm2 vm3"
p["ip_b1_vm3"] = "10.3.0.1"
p["ip_b2_vm3"] = "172.19.0.1"
p["netdst_b1_vm3"] = "virbr4"
p["netdst_b2_vm3"] = "virbr5"
p["os_type"] = "windows"
p["ip_provider_b2_vm1"] = "172.17.0.1"
net, env = make_net(p)
vm1, vm2, vm3 = (env.mock_vms[n] for n in ("vm1", "vm2", "vm3"))
lan = net.nodes["vm1"].interfaces["b2"].netconfig

net.reattach_interface(vm2, vm1)                 # vm2's internet nic joins vm1's LAN -> first address of the range
print("vm2.b1 after reattach:", net.interfaces["vm2.b1"].ip, "taken offsets:", [o for o, t in lan.range.items() if t])
net.change_network_address(lan, "172.30.0.0")    # the LAN moves, all its interfaces keep their host offsets
print("vm2.b1 after LAN move:", net.interfaces["vm2.b1"].ip, "taken offsets:", [o for o, t in lan.range.items() if t])
net.reattach_interface(vm3, vm1)                 # vm3's internet nic joins the same LAN
print("vm3.b1 after reattach:", net.interfaces["vm3.b1"].ip)

bad = 0
ips = collections.Counter(i.ip for i in net.interfaces.values())
for ip, count in ips.items():
    if count > 1:
        print("VIOLATION: address %s is used by %s interfaces: %s" % (ip, count, [k for k, i in net.interfaces.items() if i.ip == ip]))
        bad = 1
for key, iface in net.interfaces.items():
    if not iface.netconfig.has_interface(iface):
        print("VIOLATION: %s (%s) points to netconfig %s which does not contain it any more" % (key, iface.ip, iface.netconfig.net_ip))
        bad = 1
sys.exit(bad)
