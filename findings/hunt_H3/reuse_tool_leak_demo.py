"""C20: a reused tool (collect/create/clean) that raises leaks its temporary parameters into all later steps of the chain."""
import sys, os
sys.path.insert(0, os.path.join(os.getcwd(), "hunt"))
from harness import *
import harness
import logging
logging.disable(logging.CRITICAL)
from avocado_i2n.plugins.manu import Manu
from avocado_i2n.cartgraph import TestWorker

# the environment of the first worker start fails once (e.g. container that does not come up),
# which makes the first step raise "Failed to start environment" - the documented behaviour of
# the manu plugin is to report failure and go on with the remaining steps
starts = []
def flaky_start(self):
    starts.append(self.id)
    return len(starts) > 1

config = {"i2n.manu.params": ["setup=collect,boot", "vms=vm1", "nets=net1"]}
del RUNS[:]
import contextlib
with contextlib.ExitStack() as stack:
    for p in patches():
        stack.enter_context(p)
    stack.enter_context(mock.patch.object(TestWorker, "start", flaky_start))
    stack.enter_context(mock.patch("avocado_i2n.plugins.manu.LOG_UI", mock.MagicMock()))
    retcode = Manu().run(config)

print("chain exit status:", retcode)
print("param_dict after the chain:", config["param_dict"])
bad = 0
boots = [r for r in RUNS if r["vm_action"] == "boot"]
print("boot tests run:", len(boots))
for r in boots:
    leaked = {k: v for k, v in r["_params"].items() if k in ("get_state_images", "get_mode_images", "check_mode_images", "pool_scope")}
    print("  %s -> %s" % (r["shortname"][:60], leaked))
    if r["_params"].get("get_state_images") == "root" or r["_params"].get("pool_scope") == "swarm cluster shared":
        print("  VIOLATION: the boot step received the temporary parameters of the failed collect step")
        bad = 1
if any(k in config["param_dict"] for k in ("get_state_images", "get_mode_images", "check_mode_images", "pool_scope")):
    print("VIOLATION: command line parameter dictionary is permanently modified by the failed step")
    bad = 1
if len(boots) != 1:
    print("(unexpected number of boot tests)")
sys.exit(bad)
