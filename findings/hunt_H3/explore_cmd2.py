import sys, os, ast
sys.path.insert(0, os.getcwd())
os.environ["HOME"] = os.path.join(os.getcwd(), "hunt", "home")  # do not depend on overwrite files outside of the worktree
os.makedirs(os.environ["HOME"], exist_ok=True)
import avocado_i2n
import logging
logging.disable(logging.CRITICAL)
from avocado_i2n.cartgraph import TestGraph
for s in ["only1 CentOS\n", "onlyx CentOS\n", "no_extra CentOS\n"]:
    try:
        objs = TestGraph.parse_composite_objects("vm1", "vms", s)
        print(repr(s), "->", [o.params["name"] for o in objs])
    except BaseException as e:
        print(repr(s), "-> EXC", type(e).__name__, str(e)[:200])
