import sys, os
sys.path.insert(0, os.path.join(os.getcwd(), "hunt"))
from vmnet_harness import *

p = base_params()
p["os_type"] = "windows"
net, env = make_net(p)
print(net)
nc = net.netconfigs["10.2.0.0"]
print("gateway before", nc.gateway)
try:
    net.change_network_address(nc, "10.1.5.1")
except Exception as e:
    print("EXC", type(e).__name__, e)
print(net)
for k, i in net.interfaces.items():
    print(k, i.ip, i.params.get("netmask"), i.netconfig.net_ip, i.netconfig.netmask, i.netconfig.gateway)
nc = net.netconfigs["172.17.0.0"]
net.change_network_address(nc, "172.19.0.0")
for k, i in net.interfaces.items():
    print(k, i.ip, i.params.get("netmask"), i.netconfig.net_ip, i.netconfig.netmask, i.netconfig.gateway)
