import sys, os, itertools
sys.path.insert(0, os.path.join(os.getcwd(), "hunt"))
from vmnet_harness import *
from avocado_i2n import vmnet

locals_ = [{"type": "nic", "nic": "lan_nic"}, {"type": "internetip"},
           {"type": "custom", "lnet": "192.168.50.0", "lmask": "255.255.255.0", "rnet": "192.168.60.0", "rmask": "255.255.255.0"}]
remotes = [{"type": "custom", "nic": "lan_nic"}, {"type": "externalip"}, {"type": "modeconfig", "modeconfig_ip": "172.30.0.1"}]
peers = [{"type": "ip", "nic": "internet_nic"}, {"type": "dynip", "nic": "internet_nic"}]
for l, r, pe in itertools.product(locals_, remotes, peers):
    p = base_params()
    p["vms"] = "vm1 vm2 vm3"
    p["ip_b1_vm3"] = "10.3.0.1"
    p["ip_b2_vm3"] = "172.18.0.7"   # vm3 in LAN of vm2
    with mock.patch.object(vmnet.VMTunnel, "configure_on_endpoint", mock.MagicMock()):
        net, env = make_net(p)
        try:
            net.configure_tunnel_between_vms("vpn1", env.mock_vms["vm1"], env.mock_vms["vm2"], dict(l), dict(r), dict(pe), None)
        except Exception as e:
            print(l["type"], r["type"], pe["type"], "EXC", type(e).__name__, e)
            continue
    t = net.tunnels["vpn1"]
    L, R = t.left_params, t.right_params
    g = lambda P, k: P.get("vpnconn_" + k)
    print(l["type"], r["type"], pe["type"], "| L lan", g(L, "lan_type"), g(L, "lan_net"), g(L, "lan_netmask"), "rem", g(L, "remote_type"), g(L, "remote_net"), g(L, "remote_netmask"),
          "peer", g(L, "peer_type"), g(L, "peer_ip"), g(L, "activation"),
          "| R lan", g(R, "lan_type"), g(R, "lan_net"), g(R, "lan_netmask"), "rem", g(R, "remote_type"), g(R, "remote_net"), g(R, "remote_netmask"),
          "peer", g(R, "peer_type"), g(R, "peer_ip"), g(R, "activation"))
    n = net.nodes
    res = {}
    for a, b in itertools.permutations(["vm1", "vm2", "vm3"], 2):
        try:
            res[(a, b)] = t.connects_nodes(n[a], n[b])
        except Exception as e:
            res[(a, b)] = "EXC %s %s" % (type(e).__name__, e)
    for a, b in itertools.combinations(["vm1", "vm2", "vm3"], 2):
        flag = "" if res[(a, b)] == res[(b, a)] else "  <<<< ORDER DEPENDENT"
        print("    connects", a, b, res[(a, b)], res[(b, a)], flag)
