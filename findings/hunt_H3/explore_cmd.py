import sys, os, ast
sys.path.insert(0, os.getcwd())
os.environ["HOME"] = os.path.join(os.getcwd(), "hunt", "home")  # do not depend on overwrite files outside of the worktree
os.makedirs(os.environ["HOME"], exist_ok=True)
sys.path.insert(1, os.path.join(os.getcwd(), "selftests", "isolation"))
import avocado_i2n
assert os.path.abspath(avocado_i2n.__file__).startswith(os.getcwd() + os.sep)
import logging
logging.disable(logging.CRITICAL)
import avocado_i2n.cmd_parser as cmd
for args in ast.literal_eval(sys.argv[1]):
    config = {"params": args}
    try:
        cmd.params_from_cmd(config)
        print(args, "->\n   tests_str=%r\n   vm_strs=%r\n   param_dict=%r vms=%r" % (config["tests_str"], config["vm_strs"], config["param_dict"], config["vms_params"]["vms"]))
    except BaseException as e:
        print(args, "-> EXC", type(e).__name__, str(e)[:200].replace("\n", " | "))
