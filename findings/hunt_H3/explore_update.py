import sys, os
sys.path.insert(0, os.path.join(os.getcwd(), "hunt"))
from harness import *
import logging
logging.basicConfig(filename="hunt/explore.log", filemode="w", level=logging.DEBUG, force=True) if os.environ.get("DBG") else logging.disable(logging.CRITICAL)

config = base_config()
import ast
mods = ast.literal_eval(sys.argv[1]) if len(sys.argv) > 1 else {}
for k, v in mods.get("vms_params", {}).items():
    config["vms_params"][k] = v
config["param_dict"].update(mods.get("param_dict", {}))
if "vm_strs" in mods:
    config["vm_strs"] = mods["vm_strs"]
try:
    ret = call(intertest_setup.update, config, tag="1r")
    print("RET", ret)
except BaseException as e:
    print("EXC", type(e).__name__, str(e)[:300])
for r in RUNS:
    print("RUN", r["_prefix"], r["shortname"][:70], "| vms", r["vms"], "| nets", r["nets"], "| type", r["type"])
for s in STATES:
    print("STATE", s[0], s[1], s[2], s[3], s[4][:60])
