import sys, os
sys.path.insert(0, os.path.join(os.getcwd(), "hunt"))
from harness import *
import logging, re, ast
logging.disable(logging.CRITICAL)

def short(s):
    return re.sub(r"\.virtio_rng.*?(x86_64|i386)", "", s)

cases = ast.literal_eval(sys.argv[1])
for case in cases:
    config = base_config()
    for k, v in case.get("vms_params", {}).items():
        config["vms_params"][k] = v
    config["param_dict"].update(case.get("param_dict", {}))
    if "vm_strs" in case:
        config["vm_strs"] = case["vm_strs"]
    if "available_vms" in case:
        config["available_vms"] = case["available_vms"]
    print("=== CASE", case)
    try:
        ret = call(intertest_setup.update, config, tag="1r")
        print("RET", ret)
    except BaseException as e:
        print("EXC", type(e).__name__, str(e)[:300])
    for r in RUNS:
        print("  RUN", r["_prefix"], short(r["shortname"]), "| vms", r["vms"], "| nets", r["nets"], "| type", r["type"])
    for s in STATES:
        print("  STATE", s[0], s[1], s[2], s[3], short(s[4]))
