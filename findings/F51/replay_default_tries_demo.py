"""
C04/C02 demo: with retries enabled (max_tries=2, stop_status=pass, default max_concurrent_tries) a worker
walks PAST a setup node whose last remaining try is still being executed by another worker and starts the
dependants of that setup although the setup has never succeeded yet.

Schedule (virtual seconds, test_timeout=10, nobody overruns): tutorial3 needs customize.vm1 -> connect.vm1 -> tutorial3
and customize.vm2 -> tutorial3.  One worker gets customize.vm1: try 1 FAILs after 2s, try 2 (5s) PASSes at t=7.
The other worker finishes customize.vm2 at t=3 and arrives at customize.vm1 while try 2 is in flight.
Expected: it backs off (the node has no try left for it and is still being executed).
Observed: it is let in (1 started worker < max_concurrent_tries=max_tries=2), finds no tries left,
flags the node as done and runs connect.vm1 (t=3) and tutorial3 (t=4) before customize.vm1 ever passed.

The same happens with max_tries=3 rerun_status=fail: a try is left but the worker does not join because
the UNKNOWN placeholder of the try in flight is not in the rerun set, and it walks past as well.

Exit 1 if the violation is present in any variant, 0 otherwise.
"""
import os, sys, contextlib
sys.path.insert(0, os.getcwd())
sys.path.insert(1, os.path.join(os.getcwd(), "hunt")); sys.path.insert(2, "/verif/findings/hunt_H5")
from harness import *
logging.disable(logging.CRITICAL)

T = 10
VMSTR = {"vm1": "only CentOS\n", "vm2": "only Win10\n", "vm3": "only Ubuntu\n"}


def policy(node, nth):
    short = node.params["shortname"]
    if "customize.vm1" in short:
        return (6.0, "FAIL") if nth == 1 else (6.0, "PASS")
    if "customize.vm2" in short:
        return 0.5, "PASS"
    return 1.0, "PASS"


def run_variant(title, retry_params):
    print(f"--- {title}: {retry_params}")
    rec = Recorder(policy)
    with contextlib.ExitStack() as st:
        for p in patches(rec):
            st.enter_context(p)
        set_pool(present=["install"])
        params = {"nets": "net1 net2", "test_timeout": T, "shared_pool": "/mnt/local/images/shared"}
        params.update(retry_params)
        graph = TestGraph.parse_object_trees(None, "only normal\nonly tutorial3\n", "", VMSTR, params)
        traverse(graph, make_runner(), params)

    for e in rec.executions:
        print(f"{e['worker']:5} {e['start']:6.2f} -> {e['end']:6.2f} {e['status']:5} uid={e['prefix']:9} {e['short'][:45]}")
        assert e["end"] - e["start"] <= T, "no test may overrun its timeout in this demo"

    setup = [e for e in rec.executions if "customize.vm1" in e["short"]]
    first_pass = min([e["end"] for e in setup if e["status"] == "PASS"], default=float("inf"))
    early = [e for e in rec.executions
             if ("connect.vm1" in e["short"] or "tutorial3" in e["short"]) and e["start"] < first_pass]
    if early:
        for e in early:
            live = [s for s in setup if s["start"] <= e["start"] < s["end"]]
            print(f"VIOLATION: {e['worker']} started dependant {e['short'][:35]} at t={e['start']:.2f} while "
                  f"customize.vm1 had never passed (first pass at t={first_pass:.2f}) and was in flight on "
                  f"{[s['worker'] for s in live]}")
        return 1
    print("OK: no dependant was started before its setup succeeded or was given up")
    return 0


def main():
    # variant 1: no try is left for the second worker (2 tries: one failed, one in flight)
    status = run_variant("replay defaults: 2 tries in should_rerun, 1 in is_occupied and in the wait budget", {"replay": "previous-job"})
    return status


if __name__ == "__main__":
    sys.exit(main())
