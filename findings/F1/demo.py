#!/usr/bin/env python
"""
Demo for finding F1 (property C17).

C17: a vm-level state is listed as available exactly when every one of the
vm's images (and, for memory-file based states, the memory file) carries a
state of that name, for any number of images and any order of their lists.

Run from the worktree root:  /venv/bin/python finding_out/demo.py
Exit code 0 = property holds on all cases, 1 = property violated.

The real QCOW2VTBackend.show / RamfileBackend.show (+ real QCOW2ExtBackend as
its image backend, on a real temporary directory) are exercised. Only
virttest's QemuImg (the qemu-img wrapper) is replaced by a stub.
"""

import itertools
import os
import sys
import tempfile
import traceback
import unittest.mock as mock

sys.path.insert(0, os.getcwd())

from virttest import utils_params

from avocado_i2n.states import setup as ss
from avocado_i2n.states import qcow2, ramfile


FAILURES = []


def report(label, expected, call):
    try:
        got = call()
    except Exception as error:
        FAILURES.append(label)
        print(f"FAIL {label}: expected {sorted(expected)} but got exception "
              f"{type(error).__name__}: {error}")
        tb = traceback.extract_tb(error.__traceback__)[-1]
        print(f"       raised at {os.path.relpath(tb.filename)}:{tb.lineno}: {tb.line}")
        return
    if set(got) != set(expected) or len(list(got)) != len(set(got)):
        FAILURES.append(label)
        print(f"FAIL {label}: expected {sorted(expected)} but got {sorted(got)}")
    else:
        print(f"ok   {label}: {sorted(got)}")


def oracle(per_image, memory=None):
    """C17 reference: intersection over all images (and the memory files)."""
    sets = [set(s) for s in per_image]
    if memory is not None:
        sets.append(set(memory))
    return set.intersection(*sets) if sets else set()


# --------------------------------------------------------------------------
# qcow2vt: internal "on" snapshots listed per image through qemu-img
# --------------------------------------------------------------------------
def qemu_img_stub(states_of_image):
    class QemuImgStub:
        def __init__(self, params, root_dir, tag):
            self.tag = tag

        def snapshot_list(self, force_share=False):
            out = ""
            for i, state in enumerate(states_of_image[self.tag]):
                out += f"{i}         {state}         1 GiB 2024-01-01 00:00:00   00:00:00.000\n"
            return out
    return QemuImgStub


def vm_params(images):
    params = utils_params.Params()
    params["vms"] = "vm1"
    params["images"] = " ".join(images)
    params["images_base_dir"] = "/images/vm1"
    params["image_format"] = "qcow2"
    params["qemu_img_binary"] = "qemu-img"
    return params


def run_qcow2vt(label, per_image):
    images = [f"image{i + 1}" for i in range(len(per_image))]
    states_of_image = dict(zip(images, per_image))
    with mock.patch("avocado_i2n.states.qcow2.QemuImg", qemu_img_stub(states_of_image)):
        report(f"qcow2vt {label} {per_image}", oracle(per_image),
               lambda: qcow2.QCOW2VTBackend.show(vm_params(images), object=None))


def run_qcow2vt_via_show_states():
    """Same thing but through the public entry point states.setup.show_states."""
    ss.BACKENDS = {"qcow2vt": qcow2.QCOW2VTBackend, "mock": mock.MagicMock(spec=ss.StateBackend)}
    params = utils_params.Params()
    params["nets"] = "net1"
    params["vms"] = "vm1"
    params["images_vm1"] = "image1 image2"
    params["images_base_dir_vm1"] = "/images/vm1"
    params["states_chain"] = "nets vms images"
    params["states_nets"] = "mock"
    params["states_images"] = "mock"
    params["states_vms"] = "qcow2vt"
    params["skip_types"] = "nets nets/vms/images"
    params["image_format"] = "qcow2"
    params["qemu_img_binary"] = "qemu-img"
    per_image = [["launch", "other"], ["launch"]]
    stub = qemu_img_stub({"image1": per_image[0], "image2": per_image[1]})
    with mock.patch("avocado_i2n.states.qcow2.QemuImg", stub):
        report(f"qcow2vt via setup.show_states {per_image}", oracle(per_image),
               lambda: ss.show_states(params, mock.MagicMock(name="env")))


# --------------------------------------------------------------------------
# ramfile: memory dump files + external qcow2 image states on a real directory
# --------------------------------------------------------------------------
class QemuImgPathStub:
    def __init__(self, params, root_dir, tag):
        self.image_filename = os.path.join(root_dir, tag)


def run_ramfile(label, per_image, memory):
    ramfile.RamfileBackend.image_state_backend = qcow2.QCOW2ExtBackend
    images = [f"image{i + 1}" for i in range(len(per_image))]
    with tempfile.TemporaryDirectory() as pool:
        vm_dir = os.path.join(pool, "vm1-abc.def")
        os.makedirs(vm_dir)
        for state in memory:
            open(os.path.join(vm_dir, state + ".state"), "w").close()
        for image, states in zip(images, per_image):
            os.makedirs(os.path.join(vm_dir, image))
            for state in states:
                open(os.path.join(vm_dir, image, state + ".qcow2"), "w").close()
        params = vm_params(images)
        params["swarm_pool"] = pool
        params["object_id"] = "vm1-abc.def"
        params["object_type"] = "nets/vms"
        params["pool_scope"] = "own"
        params["nets_gateway"] = ""
        params["nets_host"] = ""
        with mock.patch("avocado_i2n.states.qcow2.QemuImg", QemuImgPathStub):
            report(f"ramfile {label} images={per_image} memory={memory}",
                   oracle(per_image, memory),
                   lambda: ramfile.RamfileBackend.show(params, object=None))


def main():
    print("== controls (single image; expected to pass even on the pinned tree)")
    run_qcow2vt("1 image", [["launch", "other"]])
    run_ramfile("1 image", [["launch", "other"]], ["launch"])

    print("== two images, both carry states")
    run_qcow2vt("2 images", [["launch", "other"], ["launch"]])
    run_qcow2vt("2 images identical", [["launch"], ["launch"]])
    run_qcow2vt_via_show_states()
    run_ramfile("2 images", [["launch", "other"], ["launch"]], ["launch", "other"])

    print("== two images, FIRST image has no states (must yield no vm states)")
    run_qcow2vt("first empty", [[], ["launch"]])
    run_ramfile("first empty", [[], ["launch"]], ["launch"])

    print("== two images, SECOND image has no states")
    run_qcow2vt("second empty", [["launch"], []])

    print("== three images, every order of the per-image state lists")
    base = [["a", "b", "c"], ["b", "c"], ["c", "d"]]
    for perm in itertools.permutations(base):
        run_qcow2vt("3 images", [list(p) for p in perm])
    print("== three images, disjoint prefix then common suffix (intermediate empty result)")
    for perm in sorted(set(itertools.permutations([("a",), ("b",), ("b",)]))):
        run_qcow2vt("3 images", [list(p) for p in perm])
        run_ramfile("3 images", [list(p) for p in perm], ["a", "b"])

    print()
    if FAILURES:
        print(f"C17 VIOLATED in {len(FAILURES)} case(s)")
        return 1
    print("C17 holds on all demo cases")
    return 0


if __name__ == "__main__":
    sys.exit(main())
