#!/usr/bin/env python
"""
Demo for finding F2 (property C07: setup tests of a test are exactly those obtained
by following the get/set declarations of each of the test's objects).

Run from the worktree root:   /venv/bin/python finding_out/demo.py
Exit code 0 = property holds, 1 = property violated.

Defect under test: TestGraph.get_and_parse_nodes_from_composite_node_and_object()
re-binds its *parameter* `test_object` in the narrowing loop
`for test_object in test_node.objects:` (only entered when more than one candidate
parent is already in the graph).  After the loop `test_object` is the node's LAST
object (image of the last vm) and that object - not the one asked about - is used
to fill dep_suffix/dep_type/dep_id for the parent parser.

Input used (a temporary copy of the sample suite tp_folder/configs with two additions):
  * a vm-agnostic ("singleton", i.e. no `vms =` of its own) setup test `demo_prep`
    with two variants `flavor_a`/`flavor_b` next to customize/connect/...
  * a two-vm leaf test `demo_pair` (vms = vm1 vm2) with variants `first`/`second`
    which declares    get_images_vm1 = demo_prep    get_images_vm2 = customize
According to these declarations the setup of BOTH leaves through image1_vm1 is
{demo_prep.flavor_a on vm1, demo_prep.flavor_b on vm1} and nothing of demo_prep on vm2.
"""

import os
import re
import shutil
import sys
import tempfile

HERE = os.path.dirname(os.path.abspath(__file__))
ROOT = os.path.dirname(HERE)
sys.path.insert(0, ROOT)

# ---------------------------------------------------------------- temporary suite
tmp = tempfile.mkdtemp(prefix="f2_demo_")
os.environ["HOME"] = tmp  # avocado_overwrite_*.cfg are generated in $HOME
suite = os.path.join(tmp, "suite")
shutil.copytree(os.path.join(ROOT, "tp_folder", "configs"), os.path.join(suite, "configs"))
groups = os.path.join(suite, "configs", "groups.cfg")
with open(groups) as f:
    text = f.read()

anchor = "            # Manual or partially automated setup variants\n"
assert text.count(anchor) == 1
setup_variant = (
    "                    - demo_prep:\n"
    "                        get_images = customize\n"
    "                        get_state_images = customize\n"
    "                        type = shared_customize_vm\n"
    "                        variants:\n"
    "                            - flavor_a:\n"
    "                                set_state_images = prep_a\n"
    "                            - flavor_b:\n"
    "                                set_state_images = prep_b\n"
    "\n"
)
text = text.replace(anchor, setup_variant + anchor)
text += (
    "\n"
    "    - demo_pair:\n"
    "        vms = vm1 vm2\n"
    "        get_images_vm1 = demo_prep\n"
    "        get_images_vm2 = customize\n"
    "        get_state_images_vm2 = customize\n"
    "        type = tutorial_step_1\n"
    "        variants:\n"
    "            - first:\n"
    "            - second:\n"
)
with open(groups, "w") as f:
    f.write(text)

import logging  # noqa: E402

logging.disable(logging.WARNING)
import warnings  # noqa: E402

warnings.simplefilter("ignore")

from avocado.core.settings import settings  # noqa: E402
from avocado_i2n import params_parser as param  # noqa: E402,F401  (registers the option)
from avocado_i2n.cartgraph import TestGraph  # noqa: E402

settings.update_option("i2n.common.suite_path", suite)
assert param.custom_configs_dir() == os.path.join(suite, "configs")

PARAMS = {"test_timeout": 100, "shared_pool": "/mnt/local/images/shared", "nets": "net1"}
VM_STRS = {"vm1": "only CentOS\n", "vm2": "only Win10\n", "vm3": "only Ubuntu\n"}

failures = []


def short(node):
    """Readable id of a node: variant part + vms it is composed of."""
    name = node.params["name"]
    variant = re.sub(r"\.vms\..*$", "", name)
    return f"{variant} [vms={node.params.get('vms')}]"


def describe(nodes):
    return sorted(short(n) for n in nodes)


# ------------------------------------------------------------------ check A
print("=" * 100)
print("CHECK A: resolving the SAME (node, object) dependency twice on the real parser")
graph = TestGraph()
nodes, _ = TestGraph.parse_object_nodes(
    None, "leaves..demo_pair.first", prefix="", object_restrs=VM_STRS, params=PARAMS
)
assert len(nodes) == 1
leaf = nodes[0]
print("leaf objects:", [o.long_suffix for o in leaf.objects])
image1_vm1 = [o for o in leaf.objects if o.long_suffix == "image1_vm1"][0]
decl = image1_vm1.object_typed_params(leaf.params).get("get")
print(f"declaration for image1_vm1: get = {decl!r}")
assert decl == "demo_prep"

get1, parse1 = graph.get_and_parse_nodes_from_composite_node_and_object(leaf, image1_vm1)
first_resolution = get1 + parse1
print("1st resolution (empty graph, narrowing loop not entered):")
for line in describe(first_resolution):
    print("    ", line)
graph.new_nodes(parse1)

get2, parse2 = graph.get_and_parse_nodes_from_composite_node_and_object(leaf, image1_vm1)
second_resolution = get2 + parse2
print("2nd resolution (2 candidate parents cached -> narrowing loop entered):")
for line in describe(second_resolution):
    print("    ", line)

for n in first_resolution:
    if n.params.get("vms") != "vm1":
        failures.append(f"A: 1st resolution returned a setup node not on vm1: {short(n)}")
wrong = [n for n in second_resolution if n.params.get("vms") != "vm1"]
if wrong:
    failures.append(
        "A: dependency of image1_vm1 (get = demo_prep) was resolved for ANOTHER object: "
        + "; ".join(f"{short(n)} dep_suffix={n.params.get('dep_suffix')}" for n in wrong)
    )
if describe(first_resolution) != describe(second_resolution):
    failures.append(
        "A: the same declaration resolved to different setup tests:\n"
        f"      first : {describe(first_resolution)}\n"
        f"      second: {describe(second_resolution)}"
    )
if len(parse2) > 0:
    failures.append(
        f"A: {len(parse2)} new setup nodes were parsed although the right ones were already cached"
    )

# ------------------------------------------------------------------ check B
print("=" * 100)
print("CHECK B: complete graph parsing (TestGraph.parse_object_trees) of demo_pair.first/second")
graph = None
try:
    graph = TestGraph.parse_object_trees(
        None, "leaves..demo_pair", "", VM_STRS, dict(PARAMS), with_shared_root=False
    )
except Exception as error:  # report, do not hide
    failures.append(f"B: graph parsing raised {type(error).__name__}: {error}")
    print("graph parsing raised", type(error).__name__, error)

if graph is not None:
    leaves = [
        n for n in graph.nodes if not n.is_flat() and re.search(r"(\.|^)demo_pair(\.|$)", n.params["name"])
    ]
    print(f"{len(leaves)} composite demo_pair nodes (incl. clones) in the graph")
    per_variant = {"first": set(), "second": set()}
    for node in sorted(leaves, key=lambda n: n.params["name"]):
        variant = "first" if ".first." in node.params["name"] else "second"
        print(f"  {node.prefix:>8} {short(node)}")
        for setup, objects in node.setup_nodes.items():
            if setup.is_flat():
                continue
            via = sorted(o.long_suffix for o in objects)
            print(f"           <- {short(setup)}   via {via}")
            for o in objects:
                if o.key != "images":
                    continue
                vm_name = o.long_suffix.split("_")[-1]
                setup_vms = (setup.params.get("vms") or "").split()
                if vm_name not in setup_vms:
                    failures.append(
                        f"B: {short(node)} has setup {short(setup)} attached through {o.long_suffix} "
                        f"but that setup test does not even involve {vm_name} (spurious, and the "
                        f"declared `get` of {o.long_suffix} is not honoured)"
                    )
                if o.long_suffix == "image1_vm1":
                    per_variant[variant].add(short(setup))
    expected = {
        "internal.automated.demo_prep.flavor_a [vms=vm1]",
        "internal.automated.demo_prep.flavor_b [vms=vm1]",
    }
    for variant, found in per_variant.items():
        stripped = {re.sub(r"^(all|nonleaves)\.", "", f) for f in found}
        if stripped != expected:
            failures.append(
                f"B: setup of demo_pair.{variant} through image1_vm1 is {sorted(found)}, "
                f"expected exactly {sorted(expected)}"
            )
    prep_vm2 = [
        n for n in graph.nodes
        if not n.is_flat() and "demo_prep" in n.params["name"] and n.params.get("vms") == "vm2"
    ]
    if prep_vm2:
        failures.append(
            "B: graph contains demo_prep setup tests for vm2 which no declaration asks for: "
            + str(describe(prep_vm2))
        )

shutil.rmtree(tmp, ignore_errors=True)
print("=" * 100)
if failures:
    print(f"PROPERTY C07 VIOLATED ({len(failures)} problem(s)):")
    for failure in failures:
        print(" -", failure)
    sys.exit(1)
print("OK: setup tests match the get declarations of each object")
sys.exit(0)
