"""Exploration: multi-process exclusion / crash / timeout behaviour of pool transfers."""
import os, sys, time, tempfile, multiprocessing, shutil, random
sys.path.insert(0, os.path.join(os.getcwd(), "hunt"))
import _common
from virttest.utils_params import Params
from avocado_i2n.states import pool

tmp = tempfile.mkdtemp(prefix="h2c14")
pool_file = os.path.join(tmp, "pool", "vm1", "image1", "s.qcow2")
logf = os.path.join(tmp, "log")
params = Params({"update_pool_timeout": "20"})

def worker(i, crash):
    random.seed(i)
    real_copy, real_unlink = shutil.copy, os.unlink
    def slow_copy(src, dst):
        with open(logf, "a") as f: f.write("%d start %f\n" % (i, time.time()))
        time.sleep(0.05)
        if crash:
            os._exit(3)
        try:
            return real_copy(src, dst)
        finally:
            with open(logf, "a") as f: f.write("%d end %f\n" % (i, time.time()))
    def slow_unlink(p):
        if p.endswith(".qcow2") and "pool" in p:
            with open(logf, "a") as f: f.write("%d start %f\n" % (i, time.time()))
            time.sleep(0.05)
            try:
                return real_unlink(p)
            finally:
                with open(logf, "a") as f: f.write("%d end %f\n" % (i, time.time()))
        return real_unlink(p)
    pool.shutil.copy = slow_copy
    pool.os.unlink = slow_unlink
    cache = os.path.join(tmp, "cache%d" % i, "s.qcow2")
    os.makedirs(os.path.dirname(cache), exist_ok=True)
    with open(cache, "wb") as f: f.write(b"content %d" % i)
    for _ in range(4):
        op = random.choice(["up", "down", "del"])
        try:
            if op == "up": pool.TransferOps.upload_local(cache, pool_file, params)
            elif op == "down": pool.TransferOps.download_local(cache, pool_file, params)
            else: pool.TransferOps.delete_local(pool_file, params)
        except FileNotFoundError:
            pass

procs = [multiprocessing.Process(target=worker, args=(i, i == 0)) for i in range(8)]
t0 = time.time()
[p.start() for p in procs]; [p.join() for p in procs]
print("elapsed", time.time() - t0, "exit codes", [p.exitcode for p in procs])
events = [l.split() for l in open(logf)]
depth = 0; overlap = False
active = None
for who, what, ts in sorted(events, key=lambda e: float(e[2])):
    if what == "start":
        if active is not None and active != "0":
            overlap = True; print("OVERLAP", who, "while", active)
        active = who
    else:
        active = None
print("overlap:", overlap)
# timeout behaviour
def holder():
    with pool.image_lock(pool_file, 5):
        time.sleep(4)
h = multiprocessing.Process(target=holder); h.start(); time.sleep(0.5)
t0 = time.time()
try:
    with pool.image_lock(pool_file, 2):
        print("ACQUIRED while held!")
except RuntimeError as e:
    print("timeout after %.1fs: %s" % (time.time() - t0, e))
h.join()
