"""C13: SourcedStateBackend.show() combines the mirrors' state lists with an
empty set as "not started" sentinel, so the reported pool states depend on the
ORDER of equally-close permitted sources and a state missing from the closest
permitted source (the only one get() will ever use) is reported present."""
import os, sys, tempfile, itertools
sys.path.insert(0, os.path.join(os.getcwd(), "hunt"))
import _common
from virttest.utils_params import Params
from avocado_i2n.states import pool, qcow2

tmp = tempfile.mkdtemp(prefix="h2show")
def mkpool(name, states):
    d = os.path.join(tmp, name, "vm1-id", "image1")
    os.makedirs(d)
    for s in states:
        with open(os.path.join(d, s + ".qcow2"), "wb") as f:
            f.write(b"data-" + s.encode())
    return ":" + os.path.join(tmp, name)

srcs = {"A": mkpool("A", ["x"]), "B": mkpool("B", ["y"]), "C": mkpool("C", ["x"])}

def show(order):
    p = Params({"nets": "net1", "vms": "vm1", "images": "image1", "object_id": "vm1-id",
                "object_type": "nets/vms/images", "image_name": "image", "image_format": "qcow2", **_common.QEMU_PARAMS,
                "nets_gateway": "", "nets_host": "",
                "swarm_pool": os.path.join(tmp, "cache"), "shared_pool": os.path.join(tmp, "sharedX"),
                "pool_scope": "own shared",
                "show_location": " ".join(srcs[o] for o in order)})
    return sorted(qcow2.QCOW2ExtBackend.show(p, None))

bad = False
results = {}
for order in itertools.permutations("ABC"):
    results["".join(order)] = show(order)
    print("sources order %s (A={x} B={y} C={x}) -> reported pool states %s" % ("".join(order), results["".join(order)]))
if len({tuple(v) for v in results.values()}) != 1:
    print("VIOLATION: the reported states depend on the order of equally close sources")
    bad = True

# two sources only: the closest permitted source has no states at all
srcs["E"] = mkpool("E", [])
r = show("EA")
print("sources order EA (E={} A={x}) -> %s ; order AE -> %s" % (r, show("AE")))
if "x" in r:
    print("VIOLATION: 'x' reported present although the closest permitted source E (the only one get() uses) lacks it")
    bad = True

# consequence through the public entry points: check says present, get fetches nothing
from avocado_i2n.states import setup as ss
ss.BACKENDS = {"qcow2ext": qcow2.QCOW2ExtBackend}
run = Params({"nets": "net1", "vms": "vm1", "images": "image1", "object_id": "vm1-id",
              "states_chain": "nets vms images", "states_images": "qcow2ext", "skip_types": "nets nets/vms",
              "image_name": "image", "image_format": "qcow2", **_common.QEMU_PARAMS,
              "vms_base_dir": os.path.join(tmp, "vms"), "images_base_dir": os.path.join(tmp, "vms", "vm1"),
              "nets_gateway": "", "nets_host": "", "check_mode": "rr",
              "swarm_pool": os.path.join(tmp, "cache"), "shared_pool": os.path.join(tmp, "sharedX"),
              "pool_scope": "own shared", "get_state_images": "x", "get_mode": "ra",
              "get_location_images": srcs["E"] + " " + srcs["A"]})
os.makedirs(os.path.join(tmp, "vms", "vm1"))
open(os.path.join(tmp, "vms", "vm1", "image.qcow2"), "wb").close()
try:
    ss.get_states(run, None)
    fetched = os.path.exists(os.path.join(tmp, "cache", "vm1-id", "image1", "x.qcow2"))
    print("get_states(get_mode=ra, sources E A) did not abort; x.qcow2 in cache afterwards: %s" % fetched)
    if not fetched:
        print("VIOLATION: the state was treated as present (no abort) but nothing was fetched")
        bad = True
except Exception as e:
    print("get_states(get_mode=ra, sources E A) -> %s: %s" % (type(e).__name__, e))
sys.exit(1 if bad else 0)
