"""Exploration: random op sequences on the real QCOW2ExtBackend with real cache/pool dirs."""
import os, sys, tempfile, random, shutil
sys.path.insert(0, os.path.join(os.getcwd(), "hunt"))
import _common
from virttest.utils_params import Params
from avocado.core import exceptions
from avocado_i2n.states import setup as ss, pool, qcow2

ss.BACKENDS = {"qcow2ext": qcow2.QCOW2ExtBackend}
random.seed(int(sys.argv[1]) if len(sys.argv) > 1 else 0)
problems = 0
for trial in range(40):
    tmp = tempfile.mkdtemp(prefix="h2seq")
    vms, cache, shared = (os.path.join(tmp, d) for d in ("vms", "cache", "shared"))
    os.makedirs(os.path.join(vms, "vm1"))
    with open(os.path.join(vms, "vm1", "image.qcow2"), "wb") as f:
        f.write(os.urandom(64))
    mcache, mpool = set(), set()
    log = []
    for step in range(8):
        op = random.choice(["set", "unset", "get", "check"])
        state = random.choice(["a", "b"])
        scope = random.choice(["own", "own shared", "shared"])
        run = Params({"nets": "net1", "vms": "vm1", "images": "image1", "object_id": "vm1-id",
                      "states_chain": "nets vms images", "states_images": "qcow2ext", "skip_types": "nets nets/vms",
                      "image_name": "image", "image_format": "qcow2", **_common.QEMU_PARAMS,
                      "vms_base_dir": vms, "images_base_dir": os.path.join(vms, "vm1"),
                      "nets_gateway": "", "nets_host": "", "check_mode": "rr",
                      "swarm_pool": cache, "shared_pool": shared, "pool_scope": scope,
                      "update_pool_timeout": "2",
                      f"{op}_state_images": state, f"{op}_location_images": ":" + shared,
                      "get_mode": "ri", "set_mode": "ff", "unset_mode": "fi"})
        if op == "check":
            run["show_location_images"] = ":" + shared
        log.append((op, state, scope))
        visible = (mcache if "own" in scope else set()) | (mpool if "shared" in scope else set())
        try:
            res = getattr(ss, op + "_states")(run, None)
            out = "ok"
        except Exception as e:
            out = "%s: %s" % (type(e).__name__, e)
            res = None
        # model update
        exp = "ok"
        if op == "set":
            if "own" not in scope and state not in mcache:
                exp = "RuntimeError"
            else:
                if "own" in scope: mcache.add(state)
                if "shared" in scope: mpool.add(state)
        elif op == "unset":
            if state in visible:
                if "own" in scope:
                    if state in mcache: mcache.discard(state)
                    else: exp = "err"
                if "shared" in scope and exp == "ok":
                    if state in mpool: mpool.discard(state)
                    else: exp = "err"
        elif op == "get":
            if state in visible and "shared" in scope and state in mpool:
                mcache.add(state)
        elif op == "check":
            if res != (state in visible):
                print("CHECK MISMATCH", log, res, visible); problems += 1
        real_cache = set(s[:-6] for s in os.listdir(os.path.join(cache, "vm1-id", "image1")) if s.endswith(".qcow2")) if os.path.isdir(os.path.join(cache, "vm1-id", "image1")) else set()
        real_pool = set(s[:-6] for s in os.listdir(os.path.join(shared, "vm1-id", "image1")) if s.endswith(".qcow2")) if os.path.isdir(os.path.join(shared, "vm1-id", "image1")) else set()
        if out != "ok" and exp == "ok" or (out == "ok" and exp != "ok"):
            print("OUTCOME", log, out, "expected", exp); problems += 1; break
        if out != "ok":
            break
        if real_cache != mcache or real_pool != mpool:
            print("STORE", log, "cache", real_cache, mcache, "pool", real_pool, mpool); problems += 1; break
        # listing check
        run2 = run.copy(); run2["show_location_images"] = ":" + shared
        listed = set(s for s in ss.show_states(run2, None) if not s.endswith(".lock"))
        visible = (mcache if "own" in scope else set()) | (mpool if "shared" in scope else set())
        if listed != visible:
            print("LISTING", log, "listed", sorted(listed), "model", sorted(visible)); problems += 1; break
    shutil.rmtree(tmp)
print(problems, "problems")
