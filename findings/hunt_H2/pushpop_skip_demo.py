"""C12: push_states()/pop_states() ignore `skip_types` and the read-only image
guard that check/get/set/unset all apply: the inner set/get/unset calls run with a
restricted one-level `states_chain`, so their guards compare the bare type
("images", "vms") with the composite names ("nets/vms/images", "nets/vms") and
never match."""
import os, sys
sys.path.insert(0, os.path.join(os.getcwd(), "hunt"))
import _common, _model
from avocado_i2n.states import setup as ss

bad = False

def run(op, extra, prefill=False):
    store = _model.Store()
    ss.BACKENDS = {"mem": _model.make_backend(store)}
    store.roots = {"net1", "net1/vm1", "net1/vm1/image1", "net1/vm1/image2"}
    if prefill:
        for o in store.roots:
            store.states[o] = {"S"}
    p = _model.base_params(images=("image1", "image2"), extra=dict({"check_mode": "rr"}, **extra))
    getattr(ss, op + "_states")(p, _model.FakeEnv(["vm1"]))
    return [c for c in store.calls if c[0] in ("get", "set", "unset")]

# 1) read-only image: set/get/unset skip it ("cannot use any state from readonly image"), push/pop do not
ro = {"image_readonly_image2": "yes"}
for op, key, prefill in [("set", "set_state_images", False), ("push", "push_state_images", False),
                         ("get", "get_state_images", True), ("unset", "unset_state_images", True),
                         ("pop", "pop_state_images", True)]:
    extra = dict(ro, **{key: "S"})
    if op == "unset":
        extra["unset_mode"] = "fi"
    calls = run(op, extra, prefill)
    touched = sorted({c[1] for c in calls})
    print("%-5s with image_readonly_image2=yes -> backend calls on %s" % (op, touched))
    if "net1/vm1/image2" in touched:
        print("VIOLATION: %s_states manipulated a state of the read-only image2" % op)
        bad = True

# 2) skip_types: the types excluded by the caller are still pushed/popped
for op, key, prefill in [("set", "set_state", False), ("push", "push_state", False),
                         ("get", "get_state", True), ("pop", "pop_state", True)]:
    calls = run(op, {key: "S", "skip_types": "nets nets/vms"}, prefill)
    touched = sorted({c[1] for c in calls})
    print("%-5s with skip_types='nets nets/vms' -> backend calls on %s" % (op, touched))
    if "net1" in touched or "net1/vm1" in touched:
        print("VIOLATION: %s_states touched object types listed in skip_types" % op)
        bad = True
sys.exit(1 if bad else 0)
