"""C13/C12: the pool listing (QCOW2ImageTransfer.show) turns every directory entry
into a state name by deleting the extension anywhere in the name instead of
selecting the entries with that extension (as the local _show siblings do).  The
`<state>.qcow2.lock` / `<state>.state.lock` files left behind by every locked
transfer, and the per-image sub-directories of a vm, are reported as states."""
import os, sys, tempfile
sys.path.insert(0, os.path.join(os.getcwd(), "hunt"))
import _common
from virttest.utils_params import Params
from avocado_i2n.states import setup as ss, pool, qcow2

ss.BACKENDS = {"qcow2ext": qcow2.QCOW2ExtBackend}
tmp = tempfile.mkdtemp(prefix="h2lock")
vms, cache, shared = (os.path.join(tmp, d) for d in ("vms", "cache", "shared"))
os.makedirs(os.path.join(vms, "vm1"))
with open(os.path.join(vms, "vm1", "image.qcow2"), "wb") as f:
    f.write(b"root image")

def params(**kw):
    p = Params({"nets": "net1", "vms": "vm1", "images": "image1", "object_id": "vm1-id",
                "states_chain": "nets vms images", "states_images": "qcow2ext", "skip_types": "nets nets/vms",
                "image_name": "image", "image_format": "qcow2", **_common.QEMU_PARAMS,
                "vms_base_dir": vms, "images_base_dir": os.path.join(vms, "vm1"),
                "nets_gateway": "", "nets_host": "", "check_mode": "rr",
                "swarm_pool": cache, "shared_pool": shared, "pool_scope": "own shared"})
    p.update(kw)
    return p

bad = False
ss.set_states(params(set_state_images="install", set_location_images=":" + shared), None)
listed = sorted(ss.show_states(params(show_location_images=":" + shared), None))
print("after set(install) to cache+pool, show_states ->", listed)
if listed != ["install"]:
    print("VIOLATION: phantom state(s) %s listed" % [s for s in listed if s != "install"])
    bad = True
ss.unset_states(params(unset_state_images="install", unset_mode="fi", unset_location_images=":" + shared), None)
listed = sorted(ss.show_states(params(show_location_images=":" + shared), None))
print("after unset(install) everywhere, show_states ->", listed,
      "; check_states('install.lock') ->", ss.check_states(params(check_state_images="install.lock", show_location_images=":" + shared), None))
if listed:
    print("VIOLATION: no state is left but %s is still listed/present" % listed)
    bad = True

# vm level listing of the pool: per-image directories become vm states
os.makedirs(os.path.join(shared, "vm1-id", "image1"), exist_ok=True)
open(os.path.join(shared, "vm1-id", "launch.state"), "wb").close()
vm_listed = sorted(pool.QCOW2ImageTransfer.show(params(object_type="nets/vms", show_location=":" + shared), None))
print("pool listing for vm1 (only launch.state + image1/ directory there) ->", vm_listed)
if vm_listed != ["launch"]:
    print("VIOLATION: directory entry reported as a vm state")
    bad = True
sys.exit(1 if bad else 0)
