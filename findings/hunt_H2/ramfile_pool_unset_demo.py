"""C13: removing a ramfile vm state from cache + shared pool ("removing reaches every
permitted mirror").  RamfileBackend._unset delegates to the FULL sourced image
backend (QCOW2ExtBackend.unset) with the vm level parameters, which already
deletes the whole vm state (all images + .state) from the pool for every image;
the outer SourcedStateBackend.unset then deletes it from the pool again."""
import os, sys, tempfile
sys.path.insert(0, os.path.join(os.getcwd(), "hunt"))
import _common, _model
from virttest.utils_params import Params
from avocado_i2n.states import setup as ss, pool, qcow2, ramfile

ss.BACKENDS = {"qcow2ext": qcow2.QCOW2ExtBackend, "ramfile": ramfile.RamfileBackend}
ramfile.RamfileBackend.image_state_backend = qcow2.QCOW2ExtBackend

def scenario(images, scope):
    tmp = tempfile.mkdtemp(prefix="h2runset")
    vms, cache, shared = (os.path.join(tmp, d) for d in ("vms", "cache", "shared"))
    os.makedirs(os.path.join(vms, "vm1"))
    extra = {}
    for root in (cache, shared):
        for image in images:
            os.makedirs(os.path.join(root, "vm1-id", image))
            with open(os.path.join(root, "vm1-id", image, "launch.qcow2"), "wb") as f:
                f.write(b"launch of " + image.encode())
        with open(os.path.join(root, "vm1-id", "launch.state"), "wb") as f:
            f.write(b"ram of vm1")
    for image in images:
        with open(os.path.join(vms, "vm1", image + ".qcow2"), "wb") as f:
            f.write(b"root " + image.encode())
        extra["image_name_" + image] = image
    run = Params({"nets": "net1", "vms": "vm1", "images": " ".join(images), "object_id": "vm1-id",
                  "states_chain": "nets vms images", "states_images": "qcow2ext", "states_vms": "ramfile",
                  "skip_types": "nets nets/vms/images", "use_env": "no",
                  "image_format": "qcow2", **_common.QEMU_PARAMS,
                  "vms_base_dir": vms, "images_base_dir": os.path.join(vms, "vm1"),
                  "nets_gateway": "", "nets_host": "", "check_mode": "rr",
                  "swarm_pool": cache, "shared_pool": shared, "pool_scope": scope,
                  "unset_state_vms": "launch", "unset_mode": "fa", "unset_location_vms": ":" + shared, **extra})
    try:
        ss.unset_states(run, _model.FakeEnv(["vm1"]))
        out = "ok"
    except Exception as e:
        out = "%s: %s" % (type(e).__name__, e)
    left = sorted(os.path.relpath(os.path.join(d, f), tmp) for d, _, fs in os.walk(tmp) for f in fs
                  if "launch" in f and not f.endswith(".lock"))
    print("unset vm state 'launch' (images %s, pool_scope=%r) -> %s\n    left: %s" % (images, scope, out.replace(tmp, ""), left))
    return out, left

bad = False
for images, scope in [(["image1"], "own"), (["image1"], "own shared"), (["image1", "image2"], "own shared")]:
    out, left = scenario(images, scope)
    if out != "ok":
        bad = True
if bad:
    print("VIOLATION: a vm state present in cache and pool cannot be removed from both")

# same root cause, C17: the per-image listing used for the local completeness check lists the
# vm's *.state files of the pool as states of the image
tmp = tempfile.mkdtemp(prefix="h2rshow")
vms, cache, shared = (os.path.join(tmp, d) for d in ("vms", "cache", "shared"))
for root in (cache, shared):
    os.makedirs(os.path.join(root, "vm1-id", "image1")); os.makedirs(os.path.join(root, "vm1-id", "image2"))
    open(os.path.join(root, "vm1-id", "launch.state"), "wb").close()
    open(os.path.join(root, "vm1-id", "image1", "launch.qcow2"), "wb").close()   # image2 has NO launch state anywhere
run = Params({"nets": "net1", "vms": "vm1", "images": "image1 image2", "object_id": "vm1-id", "object_type": "nets/vms",
              "image_name_image1": "image1", "image_name_image2": "image2", "image_format": "qcow2", **_common.QEMU_PARAMS,
              "vms_base_dir": vms, "images_base_dir": os.path.join(vms, "vm1"), "nets_gateway": "", "nets_host": "",
              "swarm_pool": cache, "shared_pool": shared, "pool_scope": "own shared", "show_location": ":" + shared})
local = ramfile.RamfileBackend._show(run, None)
print("ramfile local vm states with image2 lacking 'launch' in cache and pool ->", local)
if "launch" in local:
    print("VIOLATION: vm state listed although one of the vm's images does not carry it")
    bad = True
sys.exit(1 if bad else 0)
