"""C13: the pool root helpers disagree on the pool file name of a root image.
set_root/get_root/unset_root of QCOW2ImageTransfer use
basename(get_image_path(params)) (handles image_format=raw and image names with
a directory part), but QCOW2ImageTransfer.check_root looks for
params["image_name"] + ".qcow2" and RootSourcedStateBackend.get_root validates
the cache against <image_name>.qcow2 as well."""
import os, sys, tempfile
sys.path.insert(0, os.path.join(os.getcwd(), "hunt"))
import _common
from unittest import mock
from virttest.utils_params import Params
from avocado_i2n.states import pool, qcow2

bad = False
for image_name, image_format in [("image", "qcow2"), ("image", "raw"), ("disks/image", "qcow2")]:
    tmp = tempfile.mkdtemp(prefix="h2rootname")
    vms, shared = os.path.join(tmp, "vms"), os.path.join(tmp, "shared")
    def params(scope):
        return Params({"nets": "net1", "vms": "vm1", "images": "image1", "object_type": "nets/vms/images",
                       "image_name": image_name, "image_format": image_format, **_common.QEMU_PARAMS,
                       "vms_base_dir": vms, "images_base_dir": os.path.join(vms, "vm1"),
                       "shared_pool": shared, "swarm_pool": os.path.join(tmp, "swarm"),
                       "nets_gateway": "", "nets_host": "", "pool_scope": scope})
    local = pool.QCOW2ImageTransfer.get_image_path(params("own"))
    os.makedirs(os.path.dirname(local))
    with open(local, "wb") as f:
        f.write(b"VERSION 1")
    # publish the local root image in the shared pool
    qcow2.QCOW2Backend.set_root(params("shared"), None)
    in_pool = sorted(os.path.relpath(os.path.join(d, f), shared) for d, _, fs in os.walk(shared) for f in fs if not f.endswith(".lock"))
    os.unlink(local)
    found = qcow2.QCOW2Backend.check_root(params("own shared"), None)
    print("image_name=%-12r format=%-6s uploaded as %s ; check_root(pool) without local image -> %s" % (image_name, image_format, in_pool, found))
    if not found:
        print("VIOLATION: the root image just uploaded to the shared pool is reported missing")
        bad = True
    # a stale local copy must be refreshed from the pool, an identical one must not be downloaded again
    with open(local, "wb") as f:
        f.write(b"STALE ONE")
    with mock.patch.object(pool.QCOW2ImageTransfer, "check_root", return_value=True):
        qcow2.QCOW2Backend.get_root(params("own shared"), None)
    content = open(local, "rb").read()
    print("    stale local copy + get_root(own shared) -> local content %r" % content)
    if content != b"VERSION 1":
        print("VIOLATION: a local root image differing from the pool was considered valid and not refreshed")
        bad = True
sys.exit(1 if bad else 0)
