"""Exploration (not a demo): all 2-letter modes x presence vs documented table."""
import os, sys, itertools
sys.path.insert(0, os.path.join(os.getcwd(), "hunt"))
import _common, _model
from avocado.core import exceptions
from avocado_i2n.states import setup as ss

TABLE = {  # (op): ({present letter: action}, {absent letter: action})
    "get": ({"a": "abort", "r": "do", "i": "skip"}, {"a": "abort", "i": "skip"}),
    "set": ({"a": "abort", "r": "skip", "f": "redo"}, {"a": "abort", "f": "do"}),
    "unset": ({"r": "skip", "f": "do"}, {"a": "abort", "i": "skip"}),
}
OBJ = {"nets": "net1", "vms": "net1/vm1", "images": "net1/vm1/image1"}
problems = []
for op, typ, statekind, present, root_present in itertools.product(
        ["get", "set", "unset"], ["nets", "vms", "images"], ["ordinary", "root"], [True, False], [True, False]):
    for l1, l2 in itertools.product("arifx", repeat=2):
        store = _model.Store()
        ss.BACKENDS = {"mem": _model.make_backend(store)}
        state = "S" if statekind == "ordinary" else "root"
        # all roots of other objects exist so they are irrelevant
        store.roots = set(OBJ.values())
        if not root_present:
            store.roots.discard(OBJ[typ])
        if statekind == "ordinary" and present:
            store.states[OBJ[typ]] = {"S"}
        # other objects carry a witness state that must never be touched
        for t, o in OBJ.items():
            if t != typ:
                store.states[o] = {"W"}
        p = _model.base_params(extra={f"{op}_state_{typ}": state, f"{op}_mode": l1 + l2, "check_mode": "rr"})
        before = store.snapshot()
        env = _model.FakeEnv(["vm1"])
        try:
            getattr(ss, f"{op}_states")(p, env)
            outcome = "ok"
        except exceptions.TestAbortError:
            outcome = "abort"
        except exceptions.TestError:
            outcome = "error"
        except Exception as e:
            outcome = "crash:%s:%s" % (type(e).__name__, e)
        after = store.snapshot()
        # effective presence: for root state = root_present; ordinary needs root too (check returns False if no root with 'rr')
        eff_present = root_present if statekind == "root" else (present and root_present)
        letter = l1 if eff_present else l2
        action = TABLE[op][0 if eff_present else 1].get(letter, "error")
        mut = [c for c in store.calls if c[0] in ("get", "set", "unset", "set_root", "unset_root")]
        exp = {"abort": "abort", "error": "error"}.get(action, "ok")
        desc = (op, typ, statekind, "present" if present else "absent", "root" if root_present else "noroot", l1 + l2)
        if outcome != exp:
            problems.append((desc, "outcome %s expected %s (%s)" % (outcome, exp, action), mut))
        elif exp in ("abort", "error") and after != before:
            problems.append((desc, "state altered on %s" % exp, mut))
        elif action == "skip" and after != before:
            problems.append((desc, "state altered on skip", mut))
        # untouched witnesses
        for t, o in OBJ.items():
            if t != typ and [c for c in mut if c[1] == o]:
                problems.append((desc, "touched other object %s" % o, mut))
for pr in problems:
    print(pr)
print(len(problems), "problems")
