"""Exploration: random sequences of check/get/set/unset/push/pop over 1..3 vms x 1..2 images vs set model."""
import os, sys, random, itertools
sys.path.insert(0, os.path.join(os.getcwd(), "hunt"))
import _common, _model
from avocado.core import exceptions
from avocado_i2n.states import setup as ss

random.seed(int(sys.argv[1]) if len(sys.argv) > 1 else 0)
problems = 0
for trial in range(300):
    vms = ["vm1", "vm2", "vm3"][:random.randint(1, 3)]
    images = ["image1", "image2"][:random.randint(1, 2)]
    store = _model.Store()
    ss.BACKENDS = {"mem": _model.make_backend(store)}
    objs = {"nets": ["net1"], "vms": ["net1/%s" % v for v in vms], "images": ["net1/%s/%s" % (v, i) for v in vms for i in images]}
    store.roots = set(itertools.chain(*objs.values()))
    model = {o: set() for o in store.roots}
    log = []
    for step in range(6):
        op = random.choice(["check", "get", "set", "unset", "push", "pop"])
        typ = random.choice(["nets", "vms", "images"])
        state = random.choice(["a", "b"])
        # target selection: whole type, or one vm, or one image of one vm
        sel = random.choice(["type", "vm", "image"]) if typ != "nets" else "type"
        vm = random.choice(vms); image = random.choice(images)
        if typ == "vms" and sel == "image": sel = "vm"
        if sel == "type":
            key, targets = f"{op}_state_{typ}", objs[typ]
        elif sel == "vm":
            key = f"{op}_state_{typ}_{vm}"
            targets = [o for o in objs[typ] if o.split("/")[1] == vm]
        else:
            key = f"{op}_state_{typ}_{image}_{vm}"
            targets = ["net1/%s/%s" % (vm, image)]
        extra = {key: state, "check_mode": "rr", "get_mode": "ri", "set_mode": "ff", "unset_mode": "fi"}
        if op == "push": extra["push_mode"] = "ff"
        if op == "pop": extra["pop_mode"] = None
        extra = {k: v for k, v in extra.items() if v is not None}
        p = _model.base_params(vms, images, extra)
        log.append((op, key, state))
        del store.calls[:]
        all_present = all(state in model[t] for t in targets)
        try:
            res = getattr(ss, op + "_states")(p, _model.FakeEnv(vms))
            out = "ok"
        except (exceptions.TestAbortError, exceptions.TestError) as e:
            out = type(e).__name__
        except Exception as e:
            out = "crash %s %s" % (type(e).__name__, e)
        exp = "ok"
        if op in ("set", "push"):
            for t in targets: model[t].add(state)
        elif op == "unset":
            for t in targets: model[t].discard(state)
        elif op == "pop":
            # default pop: abort at first target (iteration order) lacking the state; earlier ones are popped
            pass
        if op == "pop":
            # compute expected by iteration order: images of vm before vm, vms before net
            order = [c[1] for c in store.calls if c[0] == "show"]
            for t in targets:
                pass
            # simplified: if all present, all removed; else abort and a prefix removed -> only check all-present case
            if all_present:
                for t in targets: model[t].discard(state)
            else:
                exp = "TestAbortError"
                real = {o: set(store.states.get(o, set())) for o in model}
                model = real  # resync
        if op == "check" and out == "ok" and res != all_present:
            print("CHECK", log, res, all_present); problems += 1
        if out != exp:
            print("OUTCOME", log, out, exp); problems += 1; break
        real = {o: set(store.states.get(o, set())) for o in model}
        if real != model:
            print("STORE", log, {k: v for k, v in real.items() if v != model[k]}, {k: v for k, v in model.items() if v != real[k]}); problems += 1; break
        touched = {c[1] for c in store.calls if c[0] in ("get", "set", "unset", "set_root", "unset_root")}
        if not touched <= set(targets):
            print("TOUCHED", log, touched - set(targets)); problems += 1; break
print(problems, "problems")
