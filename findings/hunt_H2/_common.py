import os, sys, warnings, logging
warnings.filterwarnings("ignore")
sys.path.insert(0, os.getcwd())
import avocado_i2n
assert os.path.realpath(avocado_i2n.__file__).startswith(os.path.realpath(os.getcwd()) + os.sep), avocado_i2n.__file__
logging.disable(logging.CRITICAL)

FAKEBIN = os.path.join(os.path.dirname(os.path.abspath(__file__)), "fakebin")
#: parameters pointing the avocado-vt QemuImg wrapper to the stand-in binaries (no qemu here)
QEMU_PARAMS = {"qemu_img_binary": os.path.join(FAKEBIN, "qemu-img"),
               "qemu_binary": os.path.join(FAKEBIN, "qemu-kvm")}
