"""C17: QCOW2VTBackend.show() requires the vm state to be recorded with a non-zero
VM SIZE on EVERY image.  QEMU's savevm stores the vm (ram/device) state in one
image only (the first writable qcow2 one) and takes plain disk snapshots of the
same name with vm_state_size 0 on all the others (migration/savevm.c,
bdrv_all_create_snapshot), so every image carries a state of that name but only
one listing shows a non-zero VM SIZE -> on states of vms with >= 2 images are
never listed."""
import os, sys
sys.path.insert(0, os.path.join(os.getcwd(), "hunt"))
import _common
from unittest import mock
from virttest.utils_params import Params
from avocado_i2n.states import qcow2

HEADER = "Snapshot list:\nID        TAG               VM SIZE                DATE     VM CLOCK     ICOUNT\n"
def line(i, tag, size):
    return "%-9s %-16s %8s 2024-05-01 10:0%d:00 00:01:10.123         --\n" % (i, tag, size, i)

def listing(entries):
    return HEADER + "".join(line(i + 1, t, s) for i, (t, s) in enumerate(entries))

def show(per_image):
    class FakeQemuImg:
        def __init__(self, params, root_dir, tag):
            self.tag = tag
        def snapshot_list(self, force_share=False):
            return listing(per_image[self.tag])
    p = Params({"vms": "vm1", "images": " ".join(per_image), "images_base_dir": "/images/vm1",
                "object_type": "nets/vms", "image_format": "qcow2"})
    with mock.patch("avocado_i2n.states.qcow2.QemuImg", FakeQemuImg):
        return sorted(qcow2.QCOW2VTBackend.show(p, None))

bad = False
# what `savevm launch` on a running vm with two qcow2 disks leaves behind, plus an
# off (image) snapshot "install" on both disks and an on state only on one image
cases = [
    ("1 image : launch(on) install(off)", {"image1": [("install", "0 B"), ("launch", "258 MiB")]}, ["launch"]),
    ("2 images: savevm launch (ram in image1, 0 B disk snapshot in image2), install(off) on both",
     {"image1": [("install", "0 B"), ("launch", "258 MiB")], "image2": [("install", "0 B"), ("launch", "0 B")]}, ["launch"]),
    ("2 images: same with the ram stored in the second image",
     {"image1": [("launch", "0 B")], "image2": [("launch", "1.2 GiB")]}, ["launch"]),
    ("2 images: launch missing completely on image2",
     {"image1": [("launch", "258 MiB")], "image2": [("install", "0 B")]}, []),
    ("3 images: ram in image1 only, all three carry the name",
     {"image1": [("launch", "258 MiB")], "image2": [("launch", "0 B")], "image3": [("launch", "0 B")]}, ["launch"]),
]
for title, per_image, expected in cases:
    got = show(per_image)
    print("%-95s -> %s (expected %s)" % (title, got, expected))
    if got != expected:
        bad = True
if bad:
    print("VIOLATION: a vm state carried by all images of the vm (ram part in one of them) is not listed")
sys.exit(1 if bad else 0)
