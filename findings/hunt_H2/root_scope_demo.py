"""C13: RootSourcedStateBackend.check_root()/get_root() contact (and download from)
the shared pool whenever pool_scope is anything but exactly "own", even when the
"shared" scope is NOT enabled (e.g. pool_scope = "own swarm")."""
import os, sys, tempfile
sys.path.insert(0, os.path.join(os.getcwd(), "hunt"))
import _common
from unittest import mock
from virttest.utils_params import Params
from avocado_i2n.states import pool, qcow2

tmp = tempfile.mkdtemp(prefix="h2root")
shared = os.path.join(tmp, "shared")
vms = os.path.join(tmp, "vms")
os.makedirs(os.path.join(shared, "vm1"))
os.makedirs(os.path.join(vms, "vm1"))
with open(os.path.join(shared, "vm1", "image.qcow2"), "wb") as f:
    f.write(b"POOL VERSION")
local = os.path.join(vms, "vm1", "image.qcow2")

def params(scope):
    return Params({"nets": "net1", "vms": "vm1", "images": "image1", "object_type": "nets/vms/images",
                   "image_name": "image", "image_format": "qcow2", **_common.QEMU_PARAMS,
                   "vms_base_dir": vms, "images_base_dir": os.path.join(vms, "vm1"),
                   "shared_pool": shared, "swarm_pool": os.path.join(tmp, "swarm"),
                   "nets_gateway": "", "nets_host": "", "pool_scope": scope})

bad = False
contacted = []
real_list, real_download = pool.TransferOps.list_paths, pool.TransferOps.download
def spy_list(path, p):
    contacted.append(("list", path)); return real_list(path, p)
def spy_download(cache, path, p):
    contacted.append(("download", path)); return real_download(cache, path, p)

with mock.patch.object(pool.TransferOps, "list_paths", spy_list), \
     mock.patch.object(pool.TransferOps, "download", spy_download):
    for scope in ["own swarm", "own swarm cluster", "swarm cluster"]:
        # 1) no local image at all
        if os.path.exists(local):
            os.unlink(local)
        del contacted[:]
        exists = qcow2.QCOW2Backend.check_root(params(scope), None)
        print("pool_scope=%-20r no local image: check_root -> %s, shared pool accesses: %s" % (scope, exists, contacted))
        if exists or contacted:
            print("VIOLATION: the shared pool was consulted/used although 'shared' is not in pool_scope")
            bad = True
        # 2) a local image that differs from the one in the (disabled) shared pool
        with open(local, "wb") as f:
            f.write(b"LOCAL VERSION")
        del contacted[:]
        qcow2.QCOW2Backend.get_root(params(scope), None)
        content = open(local, "rb").read()
        print("pool_scope=%-20r local image differs : get_root -> local content now %r, shared pool accesses: %s"
              % (scope, content, [c[0] for c in contacted]))
        if content != b"LOCAL VERSION" or contacted:
            print("VIOLATION: the local root image was replaced from the shared pool although 'shared' is not in pool_scope")
            bad = True
sys.exit(1 if bad else 0)
