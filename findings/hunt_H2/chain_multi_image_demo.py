"""C13/C14: QCOW2ImageTransfer.get_dependency() uses params["images"] as ONE image
name.  For a vm level state (ramfile backend) of a vm with two images this is
"image1 image2", the backing-chain probe looks at
<swarm_pool>/<vm>/image1 image2/<state>.qcow2, finds nothing and every pool
download/upload/validation of such a vm state dies with a TypeError."""
import os, sys, tempfile
sys.path.insert(0, os.path.join(os.getcwd(), "hunt"))
import _common, _model
from virttest.utils_params import Params
from avocado_i2n.states import setup as ss, pool, qcow2, ramfile

ss.BACKENDS = {"qcow2ext": qcow2.QCOW2ExtBackend, "ramfile": ramfile.RamfileBackend}
ramfile.RamfileBackend.image_state_backend = qcow2.QCOW2ExtBackend

def scenario(images):
    tmp = tempfile.mkdtemp(prefix="h2chain")
    vms, cache, shared = (os.path.join(tmp, d) for d in ("vms", "cache", "shared"))
    os.makedirs(os.path.join(vms, "vm1"))
    os.makedirs(os.path.join(cache, "vm1-id"))
    extra = {}
    for image in images:
        with open(os.path.join(vms, "vm1", image + ".qcow2"), "wb") as f:
            f.write(b"root " + image.encode())
        os.makedirs(os.path.join(shared, "vm1-id", image))
        with open(os.path.join(shared, "vm1-id", image, "launch.qcow2"), "wb") as f:
            f.write(b"launch of " + image.encode())
        extra["image_name_" + image] = image
    with open(os.path.join(shared, "vm1-id", "launch.state"), "wb") as f:
        f.write(b"ram of vm1")
    run = Params({"nets": "net1", "vms": "vm1", "images": " ".join(images), "object_id": "vm1-id",
                  "states_chain": "nets vms images", "states_images": "qcow2ext", "states_vms": "ramfile",
                  "skip_types": "nets nets/vms/images", "use_env": "no",
                  "image_format": "qcow2", **_common.QEMU_PARAMS,
                  "vms_base_dir": vms, "images_base_dir": os.path.join(vms, "vm1"),
                  "nets_gateway": "", "nets_host": "", "check_mode": "rr",
                  "swarm_pool": cache, "shared_pool": shared, "pool_scope": "shared",
                  "get_state_vms": "launch", "get_mode": "ra", "get_location_vms": ":" + shared, **extra})
    try:
        ss.get_states(run, _model.FakeEnv(["vm1"]))
        out = "ok"
    except Exception as e:
        out = "%s: %s" % (type(e).__name__, e)
    got = sorted(os.path.relpath(os.path.join(d, f), cache) for d, _, fs in os.walk(cache) for f in fs)
    print("fetch vm state 'launch' from the shared pool for a vm with images %s -> %s\n    cache now: %s" % (images, out, got))
    return out

ok1 = scenario(["image1"])
ok2 = scenario(["image1", "image2"])
if ok1 == "ok" and ok2 != "ok":
    print("VIOLATION: the same pool fetch that works for one image fails for two images")
    sys.exit(1)
sys.exit(0 if (ok1, ok2) == ("ok", "ok") else 2)
