"""In-memory state backend + params builder to drive the real states/setup.py."""
import os, sys
from virttest.utils_params import Params
from avocado_i2n.states import setup as ss


class Store:
    def __init__(self):
        self.roots = set()       # object names whose root exists
        self.states = {}         # object name -> set of state names
        self.calls = []          # (op, object name, state)

    def snapshot(self):
        return (frozenset(self.roots), frozenset((k, frozenset(v)) for k, v in self.states.items() if v))


def make_backend(store):
    class MemBackend(ss.StateBackend):
        @staticmethod
        def _name(params):
            return params["object_name"] if "/" not in params.get("object_name", "") else params["object_name"]

        @staticmethod
        def key(params):
            # full composite name reconstructed from the restricted params
            t = params["object_type"].split("/")[-1]
            if t == "images":
                return "%s/%s/%s" % (params["nets"], params["vms"], params["images"])
            elif t == "vms":
                return "%s/%s" % (params["nets"], params["vms"])
            return params["nets"]

        @classmethod
        def show(cls, params, object=None):
            store.calls.append(("show", cls.key(params), None))
            return sorted(store.states.get(cls.key(params), set()))

        @classmethod
        def get(cls, params, object=None):
            store.calls.append(("get", cls.key(params), params["get_state"]))
            assert params["get_state"] in store.states.get(cls.key(params), set())

        @classmethod
        def set(cls, params, object=None):
            store.calls.append(("set", cls.key(params), params["set_state"]))
            store.states.setdefault(cls.key(params), set()).add(params["set_state"])

        @classmethod
        def unset(cls, params, object=None):
            store.calls.append(("unset", cls.key(params), params["unset_state"]))
            store.states.get(cls.key(params), set()).remove(params["unset_state"])

        @classmethod
        def check_root(cls, params, object=None):
            return cls.key(params) in store.roots

        @classmethod
        def get_root(cls, params, object=None):
            store.calls.append(("get_root", cls.key(params), None))

        @classmethod
        def set_root(cls, params, object=None):
            store.calls.append(("set_root", cls.key(params), None))
            store.roots.add(cls.key(params))

        @classmethod
        def unset_root(cls, params, object=None):
            store.calls.append(("unset_root", cls.key(params), None))
            store.roots.discard(cls.key(params))
            store.states.pop(cls.key(params), None)
    return MemBackend


def base_params(vms=("vm1",), images=("image1",), extra=None):
    p = Params({"nets": "net1", "vms": " ".join(vms), "images": " ".join(images),
                "states_chain": "nets vms images", "states_nets": "mem", "states_vms": "mem",
                "states_images": "mem"})
    if extra:
        p.update(extra)
    return p


class FakeVM:
    def __init__(self, name):
        self.name = name
        self.destroyed = 0
    def destroy(self, gracefully=True):
        self.destroyed += 1
    def is_alive(self):
        return False


class FakeEnv:
    def __init__(self, vms):
        self.vms = {v: FakeVM(v) for v in vms}
    def get_vm(self, name):
        return self.vms.get(name)
