#!/usr/bin/env python
"""
F6 demo: an object root (vm creation/install) node can be executed more than
`max_tries` times by workers sharing its setup.

Run from the worktree root:  /venv/bin/python finding_out/demo.py
Exit code 0 = property holds, 1 = property violated.

Real code exercised: TestGraph.traverse_object_trees / traverse_node /
traverse_terminal_node, TestNode.is_occupied / default_run_decision /
should_rerun and TestRunner.run_test_node.  Only the spawning of the actual
avocado task (TestRunner.run_test_task), the state backend ("door") and the
worker sessions are mocked, exactly like selftests/isolation does it.
"""
import asyncio
import logging
import os
import sys
import unittest.mock as mock

ROOT = os.path.dirname(os.path.dirname(os.path.abspath(__file__)))
sys.path.insert(0, ROOT)
sys.path.insert(0, os.path.join(ROOT, "selftests", "isolation"))
os.chdir(ROOT)

from unittest_utils import DummyStateControl  # noqa: E402
from avocado_i2n.plugins.runner import TestRunner  # noqa: E402
from avocado_i2n.cartgraph import TestGraph  # noqa: E402

logging.disable(logging.CRITICAL)

SHARED_POOL = ":/mnt/local/images/shared"
VM_STRS = {"vm1": "only CentOS\n", "vm2": "only Win10\n", "vm3": "only Ubuntu\n"}
STATES = ["install", "customize", "on_customize", "connect", "linux_virtuser", "windows_virtuser"]


class Recorder:
    """Replacement for the task spawning: record each execution and fail a chosen test."""

    def __init__(self, fail_pattern, gated=False):
        self.fail_pattern = fail_pattern
        self.executions = []
        # optional explicit schedule: all but the first worker are held back until the first worker
        # is inside the first (configuration) step of its *retry* of the object root
        self.gated = gated
        self.gate = asyncio.Event()
        self.release = asyncio.Event()

    def make_task(self):
        recorder = self

        async def run_test_task(runner, node):
            shortname = node.params["shortname"]
            worker = node.started_worker.id
            status = "FAIL" if recorder.fail_pattern in shortname else "PASS"
            recorder.executions.append((shortname, worker, node.prefix, status))
            if recorder.gated and "stateless.noop" in shortname and node.prefix.endswith("r1"):
                # first worker is now retrying and busy with the configuration step: let the others in
                # and stay in this step until some other worker has started any test (or 3s passed)
                recorder.gate.set()
                try:
                    await asyncio.wait_for(recorder.release.wait(), 3)
                except asyncio.TimeoutError:
                    pass
            elif recorder.gated and recorder.gate.is_set():
                recorder.release.set()
            # every test takes the same (nonzero) time like in the project's own unit tests
            await asyncio.sleep(0.1)
            testid = type("Mock", (), {"uid": node.id_test.uid, "name": node.params["name"]})()
            runner.job.result.tests.append(
                {"name": testid, "status": status, "time_elapsed": "1", "logdir": "."}
            )

        return run_test_task

    def count(self, pattern):
        return [e for e in self.executions if pattern in e[0]]


def traverse(nets, max_tries, fail_pattern, gated=False):
    """Traverse `normal..tutorial1` with the given workers where one setup test always fails."""
    DummyStateControl.asserted_states = {
        "check": {s: {SHARED_POOL: False} for s in STATES},
        "get": {s: {SHARED_POOL: 0} for s in STATES},
        "set": {s: {SHARED_POOL: 0} for s in STATES},
        "unset": {s: {SHARED_POOL: 0} for s in STATES},
    }
    job = mock.MagicMock()
    job.logdir = "."
    job.timeout = 6000
    job.result = mock.MagicMock()
    job.result.tests = []
    job.config = {"param_dict": {}, "vm_strs": VM_STRS}
    runner = TestRunner()
    runner.job = job
    runner.status_server = job

    graph = TestGraph()
    graph.restrs.update(VM_STRS)
    loaded_nodes = TestGraph.parse_flat_nodes("normal..tutorial1")
    for node in loaded_nodes:
        node.update_restrs(VM_STRS)
    graph.new_nodes(loaded_nodes)
    graph.parse_shared_root_from_object_roots()
    graph.new_workers(TestGraph.parse_workers({"nets": nets}))
    graph.runner = runner

    recorder = Recorder(fail_pattern, gated)

    async def traverse_worker(worker, params, first):
        if gated and not first:
            await recorder.gate.wait()
        await graph.traverse_object_trees(worker, params)
    params = {"test_timeout": 100, "max_tries": str(max_tries)}
    with mock.patch.object(TestRunner, "run_test_task", recorder.make_task()):
        workers = sorted(graph.workers.values(), key=lambda x: x.params["name"])
        loop = asyncio.new_event_loop()
        asyncio.set_event_loop(loop)
        loop.run_until_complete(
            asyncio.wait_for(
                asyncio.gather(*[traverse_worker(w, params, w == workers[0]) for w in workers]), 600
            )
        )
        loop.close()
    return recorder


@mock.patch("avocado_i2n.cartgraph.worker.remote.wait_for_login", mock.MagicMock())
@mock.patch("avocado_i2n.cartgraph.node.door", DummyStateControl)
@mock.patch("avocado_i2n.plugins.runner.SpawnerDispatcher", mock.MagicMock())
def main():
    max_tries = 3
    nets = "net1 net2"
    violated = False

    print(f"== workers: {nets}; max_tries={max_tries} (max_concurrent_tries left at its default)")

    # control: an ordinary (non object root) setup node that always fails
    rec = traverse(nets, max_tries, "internal.automated.customize")
    runs = rec.count("internal.automated.customize")
    print(f"\n[control] always failing plain setup node 'customize' was executed {len(runs)} times:")
    for e in runs:
        print("    ", e)
    if len(runs) > max_tries:
        print(f"  -> VIOLATION: {len(runs)} > max_tries={max_tries}")
        violated = True
    else:
        print(f"  -> ok: {len(runs)} <= max_tries={max_tries}")

    # object root: vm creation = configuration step (noop pre-node) + unattended install
    rec = traverse(nets, max_tries, "original.unattended_install")
    runs = rec.count("original.unattended_install")
    pre = rec.count("internal.stateless.noop")
    print(f"\n[object root] always failing 'unattended_install' was executed {len(runs)} times"
          f" (configuration pre-step {len(pre)} times):")
    for e in rec.executions:
        if "unattended_install" in e[0] or "stateless.noop" in e[0]:
            print("    ", e)
    if len(runs) > max_tries:
        print(f"  -> VIOLATION of C03: the object root test ran {len(runs)} times > max_tries={max_tries}:")
        print("     the in-flight UNKNOWN result of the first creation step is put on a *copy* of the")
        print("     root's results (pre_node.results = list(test_node.results)), so other workers'")
        print("     should_rerun() does not count the worker that is already retrying.")
        violated = True
    else:
        print(f"  -> ok: {len(runs)} <= max_tries={max_tries}")

    # the exact suspected schedule: max_tries=2, three workers, net1 fails the install alone and then
    # retries; net2 and net3 reach the object root while net1 is in the configuration step of the retry
    max_tries, nets = 2, "net1 net2 net3"
    print(f"\n== workers: {nets}; max_tries={max_tries}; net2+net3 arrive while net1 configures its retry")
    rec = traverse(nets, max_tries, "original.unattended_install", gated=True)
    runs = rec.count("original.unattended_install")
    print(f"\n[object root, explicit schedule] always failing 'unattended_install' was executed {len(runs)} times:")
    for e in rec.executions:
        if "unattended_install" in e[0] or "stateless.noop" in e[0]:
            print("    ", e)
    if len(runs) > max_tries:
        print(f"  -> VIOLATION of C03: the object root test ran {len(runs)} times > max_tries={max_tries}")
        violated = True
    else:
        print(f"  -> ok: {len(runs)} <= max_tries={max_tries}")

    print("\nRESULT:", "PROPERTY VIOLATED" if violated else "property holds")
    return 1 if violated else 0


if __name__ == "__main__":
    sys.exit(main())
