#!/usr/bin/env python
"""
Demo for finding F4 (property C19: tunnel end point parameters mirror each other).

Run from the worktree root:  /venv/bin/python finding_out/demo.py
Exit code non-zero = property violated.

Uses the REAL VMNetwork / VMTunnel code; only the VM objects and the avocado env
are mocks (same approach as selftests/isolation/test_vm_network.py).
"""
import sys
import unittest.mock as mock

sys.path.insert(0, ".")

from virttest import utils_params
from avocado_i2n.vmnet import VMNetwork, VMTunnel


def make_vmnet(vms="vm1 vm2"):
    p = utils_params.Params()
    p["vms"] = vms
    p["nics"] = "b1 b2"
    p["nic_roles"] = "internet_nic lan_nic"
    p["internet_nic"] = "b1"
    p["lan_nic"] = "b2"
    p["mac"] = "00:00:00:00:00:00"
    p["netmask_b1"] = "255.255.0.0"
    p["netmask_b2"] = "255.255.0.0"
    for i, vm in enumerate(vms.split(), start=1):
        p["ip_b1_%s" % vm] = "10.%d.0.1" % i
        p["ip_b2_%s" % vm] = "172.%d.0.1" % (16 + i)
        p["netdst_b1_%s" % vm] = "virbr%d" % (2 * i - 2)
        p["netdst_b2_%s" % vm] = "virbr%d" % (2 * i - 1)
    mock_vms = {}
    for vm_name in p.objects("vms"):
        vm = mock.MagicMock(name=vm_name)
        vm.name = vm_name
        vm.params = p.object_params(vm_name)
        mock_vms[vm_name] = vm
    env = mock.MagicMock(name="env")
    env.get_vm = mock.MagicMock(side_effect=lambda n: mock_vms.get(n))
    return VMNetwork(p, env), mock_vms


def side(tunnel, which):
    params = tunnel.left_params if which == "left" else tunnel.right_params
    return {k: params.get(k) for k in ("vpnconn_lan_type", "vpnconn_remote_type",
                                       "vpnconn_lan_net", "vpnconn_lan_netmask",
                                       "vpnconn_remote_net", "vpnconn_remote_netmask")}


def check_mirror(label, tunnel):
    """C19: each side's local net/netmask is the other side's remote net/netmask."""
    left, right = side(tunnel, "left"), side(tunnel, "right")
    print("--- %s: %s" % (label, tunnel))
    print("    left  params:", left)
    print("    right params:", right)
    problems = []
    for here, hname, there, tname in ((left, "left", right, "right"), (right, "right", left, "left")):
        for lkey, rkey in (("vpnconn_lan_net", "vpnconn_remote_net"),
                           ("vpnconn_lan_netmask", "vpnconn_remote_netmask")):
            if here[lkey] != there[rkey]:
                problems.append("%s %s=%r but %s %s=%r" % (hname, lkey, here[lkey],
                                                           tname, rkey, there[rkey]))
    for problem in problems:
        print("    VIOLATION:", problem)
    if not problems:
        print("    ok: both sides mirror each other")
    return problems


def scenario_direct():
    """Public API, documented local1 type 'custom' (tunnel.py constructor docstring)."""
    vmnet, vms = make_vmnet()
    with mock.patch.object(VMTunnel, "configure_on_endpoint", mock.MagicMock()):
        vmnet.configure_tunnel_between_vms(
            "vpnc", vms["vm1"], vms["vm2"],
            local1={"type": "custom", "lnet": "192.168.50.0", "lmask": "255.255.255.0",
                    "rnet": "192.168.60.0", "rmask": "255.255.255.0"},
            remote1={"type": "custom", "nic": "lan_nic"},
            peer1={"type": "ip", "nic": "internet_nic"}, auth=None)
    return check_mirror("direct custom tunnel", vmnet.tunnels["vpnc"])


def scenario_route():
    """The only in-repo caller using 'custom': VMNetwork.configure_vpn_route (as in the selftest)."""
    vmnet, vms = make_vmnet("vm1 vm2 vm3")
    with mock.patch.object(VMTunnel, "configure_on_endpoint", mock.MagicMock()):
        for name, a, b in (("vpn1", "vm1", "vm2"), ("vpn2", "vm2", "vm3")):
            vmnet.configure_tunnel_between_vms(
                name, vms[a], vms[b],
                local1={"type": "nic", "nic": "lan_nic"},
                remote1={"type": "custom", "nic": "lan_nic"},
                peer1={"type": "ip", "nic": "internet_nic"}, auth=None)
        vmnet.configure_vpn_route([vms["vm1"], vms["vm2"], vms["vm3"]], ["vpn1", "vpn2"],
                                  remote1={"type": "custom", "nic": "lan_nic"},
                                  peer1={"type": "ip", "nic": "internet_nic"}, auth=None)
    problems = []
    for name in ("vpn1", "vpn2", "vpn1fwd", "vpn2fwd"):
        problems += check_mirror("vpn route / %s" % name, vmnet.tunnels[name])
    return problems


if __name__ == "__main__":
    problems = scenario_direct() + scenario_route()
    print()
    if problems:
        print("FAIL: C19 violated, %d mismatch(es) between tunnel end point parameters" % len(problems))
        sys.exit(1)
    print("PASS: all tunnels have mirrored local/remote net parameters")
