"""Triage demo for SUSPECT A: duplicated node registration via two test sets.

Exit 1 if graph.nodes contains duplicates (same object or same id), else 0.
"""
import os
import sys
import collections

sys.path.insert(0, os.getcwd())
sys.path.insert(1, os.path.join(os.getcwd(), "selftests", "isolation"))
import avocado_i2n
assert os.path.abspath(avocado_i2n.__file__).startswith(os.getcwd() + os.sep), avocado_i2n.__file__

from avocado_i2n.cartgraph import TestGraph

restriction = (sys.argv[1] if len(sys.argv) > 1 else "only tutorial_get..implicit_both\n").replace("\\n", "\n")
nets = sys.argv[2] if len(sys.argv) > 2 else "net1"
vm_strs = {"vm1": "only CentOS\n", "vm2": "only Win10\n", "vm3": "only Ubuntu\n"}
param_dict = {"nets": nets, "test_timeout": 100, "shared_pool": "/mnt/local/images/shared"}

print(f"restriction={restriction!r} nets={nets!r}")
graph = TestGraph.parse_object_trees(None, restriction, "", vm_strs, param_dict)

print(f"{len(graph.nodes)} nodes registered in graph.nodes")
print("selected test nodes (clone sources have a '0' prefix) and their clones:")
for n in graph.nodes:
    if "tutorial_get" in n.params["name"] or "tutorial_finale" in n.params["name"]:
        print(f"   {n.prefix:>5} {n.params['name'].split('.vms.')[0]}")

by_obj = collections.Counter(id(n) for n in graph.nodes)
by_id = collections.defaultdict(list)
for n in graph.nodes:
    by_id[n.id].append(n)

bad = False
for node_id, nodes in sorted(by_id.items()):
    if len(nodes) > 1:
        bad = True
        distinct = len({id(n) for n in nodes})
        print(f"DUPLICATE id {node_id}: {len(nodes)} entries in graph.nodes, "
              f"{distinct} distinct python object(s) "
              f"({'same object re-registered' if distinct == 1 else 'different objects with same id'})")
by_name = collections.defaultdict(list)
for n in graph.nodes:
    by_name[(n.params['name'])].append(n)
for name, nodes in sorted(by_name.items()):
    if len({id(n) for n in nodes}) > 1:
        bad = True
        print(f"DUPLICATE name {name}: {[n.id for n in nodes]}")

if bad:
    print("RESULT: suspected behaviour PRESENT (duplicates in graph.nodes)")
    sys.exit(1)
print("RESULT: no duplicates in graph.nodes")
sys.exit(0)
