import os, sys, itertools
sys.path.insert(0, os.getcwd()); sys.path.insert(0, os.path.join(os.getcwd(), "hunt"))
from scen import *
short = lambda s: re.sub(r"\.(vm\d).*", r".\1", s)
cases = []
def failer(pattern, statuses):
    def f(node, n):
        if re.search(pattern, node.params["shortname"]):
            # count across bridged
            return statuses[min(n, len(statuses)-1)]
        return "PASS"
    return f
for nets in ["net1", "net1 net2", "net1 net2 net3"]:
    for params, fail in [
        ({"max_tries": "3"}, failer("customize", ["FAIL"])),
        ({"max_tries": "3", "stop_status": "pass"}, failer("customize", ["FAIL"])),
        ({"max_tries": "2", "rerun_status": "fail error"}, failer("tutorial1", ["FAIL", "ERROR", "PASS"])),
        ({"max_tries": "3", "max_concurrent_tries": "1", "stop_status": "pass"}, failer("install", ["FAIL"])),
        ({}, failer("install", ["FAIL"])),
        ({}, failer("install", [None])),
    ]:
        p = {"test_timeout": "100"}; p.update(params)
        sim, graph, v, err = run("normal..tutorial1", nets, params=p, seed=1, fail=fail, load_params=params)
        c = collections.Counter((short(r[1]), r[3]) for r in sim.runs)
        print(nets, params, "err", repr(err)[:200], "viol", len(v))
        print("   ", dict(c))
        print("   maxrun", {short(k.replace("all.", "")): m for k, m in sim.max_running.items() if m > 1})
