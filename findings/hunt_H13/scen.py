import os, sys, random, collections
sys.path.insert(0, os.getcwd()); sys.path.insert(0, os.path.join(os.getcwd(), "hunt"))
from harness import *
import logging
logging.disable(logging.CRITICAL)

def run(restr, nets, params=None, seed=0, fail=None, pool=(), vm_strs=None, durations=(0.02, 0.3), load_params=None):
    rnd = random.Random(seed)
    sim = Sim()
    sim.pool = set(pool)
    sim.duration = lambda node: rnd.uniform(*durations)
    if fail:
        sim.outcome = fail
    config, job, runner, patches = make_env(sim, vm_strs=vm_strs)
    lp = {"nets": nets}
    lp.update(load_params or {})
    graph = load_for_parsing(config, restr, lp)
    violations = []
    orig = make_run_task(sim)
    async def checking(self, node):
        for vm in node.params.objects("vms"):
            vm_params = node.params.object_params(vm)
            for image in vm_params.objects("images"):
                ip = vm_params.object_params(image)
                for key in ("images", "vms"):
                    st = ip.get(f"get_state_{key}")
                    if st and st != "0root" and (vm, st) not in sim.pool:
                        violations.append(("C01", node.started_worker.id, node.params["shortname"], vm, st))
        await orig(self, node)
    p = mock.patch.object(TestRunner, 'run_test_task', checking); p.start()
    err = None
    try:
        run_traversal(graph, runner, params, timeout=120)
    except BaseException as e:
        err = e
    p.stop()
    for pp in patches: pp.stop()
    return sim, graph, violations, err

def summarize(sim):
    c = collections.Counter()
    for r in sim.runs:
        c[re.sub(r"\.(vm\d)\..*?(\.net\d+)?$", r".\1", r[1])] += 1
    return c

if __name__ == "__main__":
    restr, nets = sys.argv[1], sys.argv[2]
    sim, graph, v, err = run(restr, nets, seed=int(sys.argv[3]) if len(sys.argv) > 3 else 0)
    print("err", repr(err)); print("viol", v)
    for r in sim.runs: print(r[0], re.sub(r"\.virtio.*", "", r[1]), r[3], round(r[4],2), round(r[5],2))
    print(sim.max_running)
