import os, sys, asyncio, re, logging
sys.path.insert(0, os.getcwd())
sys.path.insert(1, os.path.join(os.getcwd(), "selftests", "isolation"))
import unittest.mock as mock
import avocado_i2n
assert avocado_i2n.__file__.startswith(os.getcwd() + os.sep), avocado_i2n.__file__
from aexpect.exceptions import ShellCmdError
from avocado_i2n import params_parser as param
from avocado_i2n.plugins.loader import TestLoader
from avocado_i2n.plugins.runner import TestRunner
from avocado_i2n.cartgraph import *
from avocado_i2n.cartgraph import TestGraph, TestNode, TestWorker, TestSwarm


class Sim:
    """Simulated environment: pool of states + test outcomes."""
    def __init__(self):
        self.pool = set()          # state names present in the shared pool
        self.runs = []             # (worker id, shortname, name, status, t_start, t_end)
        self.running = {}          # name -> count
        self.max_running = {}
        self.outcome = lambda node, n: "PASS"
        self.duration = lambda node: 0.1
        self.door_calls = []       # (action, params)
        self.action = "check"
        self.params = None
        self.raise_in_run = None

    # door replacement
    def set_subcontrol_parameter(self, _, __, do):
        self.action = do
    def set_subcontrol_parameter_dict(self, _, __, node_params):
        self.params = node_params
    def run_subcontrol(self, session, path):
        params, do = self.params, self.action
        self.door_calls.append((do, dict(params)))
        ok = True
        for vm in params.objects("vms"):
            vm_params = params.object_params(vm)
            for image in vm_params.objects("images"):
                image_params = vm_params.object_params(image)
                for key in ("images", "vms"):
                    state = image_params.get(f"{do}_state_{key}")
                    if not state:
                        continue
                    if do == "check":
                        if (vm, state) not in self.pool:
                            ok = False
                    elif do == "unset":
                        self.pool.discard((vm, state))
        if not ok:
            raise ShellCmdError(1, "command", "AssertionError")
    DUMP_CONTROL_DIR = "/tmp"


def make_run_task(sim):
    async def mock_run_test_task(self, node):
        loop = asyncio.get_event_loop()
        name = node.params["name"]
        uid = node.id_test.uid
        worker = node.started_worker
        assert worker is not None
        n = len([r for r in sim.runs if r[2] == name])
        t0 = loop.time()
        key = re.sub(r"net\d+", "netX", name)
        sim.running[key] = sim.running.get(key, 0) + 1
        sim.max_running[key] = max(sim.max_running.get(key, 0), sim.running[key])
        try:
            if sim.raise_in_run and sim.raise_in_run(node):
                raise RuntimeError("spawner blew up")
            await asyncio.sleep(sim.duration(node))
        finally:
            sim.running[key] -= 1
        status = sim.outcome(node, n)
        sim.runs.append((worker.id, node.params["shortname"], name, status, t0, loop.time(), dict(node.params)))
        if status is None:
            return  # never reported
        if status in ("PASS", "WARN"):
            for vm in node.params.objects("vms"):
                vm_params = node.params.object_params(vm)
                for image in vm_params.objects("images"):
                    ip = vm_params.object_params(image)
                    for key in ("images", "vms"):
                        st = ip.get(f"set_state_{key}")
                        if st:
                            sim.pool.add((vm, st))
        tid = type("Mock", (), {"uid": uid, "name": name})()
        self.job.result.tests.append({"name": tid, "status": status, "time_elapsed": "1", "logdir": "."})
    return mock_run_test_task


def make_env(sim, param_dict=None, vm_strs=None):
    config = {}
    config["param_dict"] = {"nets": "net1", "test_timeout": 100, "shared_pool": "/mnt/local/images/shared"}
    config["param_dict"].update(param_dict or {})
    config["tests_str"] = "only normal\n"
    config["vm_strs"] = vm_strs if vm_strs is not None else {"vm1": "only CentOS\n", "vm2": "only Win10\n", "vm3": "only Ubuntu\n"}
    job = mock.MagicMock()
    job.logdir = "."
    job.timeout = 6000
    job.result = mock.MagicMock()
    job.result.tests = []
    job.config = config
    runner = TestRunner()
    runner.job = job
    runner.status_server = job
    patches = [
        mock.patch('avocado_i2n.cartgraph.worker.remote.wait_for_login', mock.MagicMock()),
        mock.patch('avocado_i2n.cartgraph.node.door', sim),
        mock.patch('avocado_i2n.plugins.runner.SpawnerDispatcher', mock.MagicMock()),
        mock.patch.object(TestRunner, 'run_test_task', make_run_task(sim)),
    ]
    for p in patches:
        p.start()
    return config, job, runner, patches


def load_for_parsing(config, restriction, params):
    graph = TestGraph()
    graph.restrs.update(config["vm_strs"])
    loaded_nodes = TestGraph.parse_flat_nodes(restriction)
    for node in loaded_nodes:
        node.update_restrs(config["vm_strs"])
    graph.new_nodes(loaded_nodes)
    graph.parse_shared_root_from_object_roots()
    graph.new_workers(TestGraph.parse_workers(params))
    return graph


def run_traversal(graph, runner, params=None, timeout=None):
    params = params or {"test_timeout": 100}
    loop = asyncio.get_event_loop()
    slot_workers = sorted(list(graph.workers.values()), key=lambda x: x.params["name"])
    graph.runner = runner
    to_traverse = [graph.traverse_object_trees(s, params) for s in slot_workers]
    loop.run_until_complete(asyncio.wait_for(asyncio.gather(*to_traverse), timeout))
