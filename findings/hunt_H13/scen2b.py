import os, sys
sys.path.insert(0, os.getcwd()); sys.path.insert(0, os.path.join(os.getcwd(), "hunt"))
import scen2
from scen2 import *
shared = {("vm1", s) for s in ["root", "install", "customize", "connect", "linux_virtuser", "on_customize"]} | {("vm2", s) for s in ["root", "install", "customize", "windows_virtuser"]}
orig_sim = scen2.Sim2
for nets, slow in [("net1 net2", "net2"), ("net1 net2", "net1"), ("net1 net2 net3", "net2"), ("net1 net2 net3", "net1"), ("net1 net2 net3", "net3")]:
    class S(orig_sim):
        def __init__(self):
            super().__init__()
        @property
        def duration(self):
            return lambda node: 1.5 if node.started_worker.id == slow else 0.05
        @duration.setter
        def duration(self, v): pass
    scen2.Sim2 = S
    sim, graph, v, err = run(sys.argv[1], nets, seed=0, shared=shared)
    print(nets, "slow", slow, "err", repr(err)[:200], "viol", v)
    print("   ", [l for l in sim.log if l[0] == "unset"], {w: sorted(s for s in st if "setup" in s[1]) for w, st in sim.own.items()})
    if v:
        for l in sim.log: print("    ", l)
