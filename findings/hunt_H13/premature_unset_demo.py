"""
C05 (+C01) demo: a worker removes its own copy of a removable (unset_mode=fi) state although one of
its own dependants of that state is still pending - the dependant's flat test was so far unrolled only
by ANOTHER worker, so TestGraph.traverse_object_trees considers the graph fully explored
(TestNode.is_unrolled(worker=None)) and does not postpone the reversal.

Input: shipped sample suite (tp_folder), selection
  leaves..tutorial_gui, leaves..tutorial_get, leaves..tutorial_finale
workers nets="net1 net2" (one lxc swarm, default pool_scope / pool_filter), lower setup states
(install..windows_virtuser) already in the shared pool, all tests PASS; net2's tests take 1.5s,
net1's 0.05s (second run: the other way around).

The environment model: every worker has its own state store (unset with pool_scope=own as issued by
TestNode.sync_states removes from the acting worker's store only), a test can start if each state it
starts from is in its own store, in the shared pool or in the store of a worker listed in get_location.

Exit 1 if a test is started without a required state whose producer passed, 0 otherwise.
"""
import os, sys
sys.path.insert(0, os.getcwd()); sys.path.insert(0, os.path.join(os.getcwd(), "hunt"))
import scen2
from scen2 import *

shared = {("vm1", s) for s in ["root", "install", "customize", "connect", "linux_virtuser", "on_customize"]}
shared |= {("vm2", s) for s in ["root", "install", "customize", "windows_virtuser"]}
base = scen2.Sim2
bad = 0
for slow in ("net2", "net1"):
    class S(base):
        @property
        def duration(self):
            return lambda node: 1.5 if node.started_worker.id == slow else 0.05
        @duration.setter
        def duration(self, value):
            pass
    scen2.Sim2 = S
    sim, graph, v, err = run("leaves..tutorial_gui,leaves..tutorial_get,leaves..tutorial_finale",
                             "net1 net2", seed=0, shared=shared)
    print(f"--- slow worker {slow}: traversal error {err!r}")
    for l in sim.log:
        print("   ", l)
    for w, test, vm, state, locs, holders in v:
        producers = [(r[0], r[3]) for r in sim.runs if state in (r[6].get("set_state_images_vm2"), r[6].get("set_state_vms_vm2"))]
        print(f"VIOLATION: {w} started {test} from {vm}/{state} (get_location {locs}) but no permitted location "
              f"has it (holders: {holders}); producer runs: {producers}")
        bad += 1
    if err is not None:
        bad += 1
print("violations:", bad)
sys.exit(1 if bad else 0)
