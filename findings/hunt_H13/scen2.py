import os, sys, random, collections
sys.path.insert(0, os.getcwd()); sys.path.insert(0, os.path.join(os.getcwd(), "hunt"))
from harness import *
import logging
logging.disable(logging.CRITICAL)
short = lambda s: re.sub(r"\.(vm\d).*", r".\1", s)

class Sim2(Sim):
    """Per-worker own stores + shared pool; unset/check follow pool_scope/own semantics."""
    def __init__(self):
        super().__init__()
        self.own = collections.defaultdict(set)
        self.shared = set()
        self.log = []
    def run_subcontrol(self, session, path):
        params, do = self.params, self.action
        wid = params["nets"]
        ok = True
        for vm in params.objects("vms"):
            vm_params = params.object_params(vm)
            for image in vm_params.objects("images"):
                ip = vm_params.object_params(image)
                for key in ("images", "vms"):
                    state = ip.get(f"{do}_state_{key}")
                    if not state:
                        continue
                    if do == "check":
                        if (vm, state) not in self.own[wid] | self.shared:
                            ok = False
                    elif do == "unset":
                        self.log.append(("unset", wid, vm, state))
                        self.own[wid].discard((vm, state))
        if not ok:
            raise ShellCmdError(1, "command", "AssertionError")

def run(restr, nets, params=None, seed=0, fail=None, shared=(), durations=(0.02, 0.3), load_params=None):
    rnd = random.Random(seed)
    sim = Sim2(); sim.shared = set(shared)
    sim.duration = lambda node: rnd.uniform(*durations)
    config, job, runner, patches = make_env(sim)
    lp = {"nets": nets}; lp.update(load_params or {})
    graph = load_for_parsing(config, restr, lp)
    violations = []
    async def task(self, node):
        w = node.started_worker.id
        name = node.params["name"]; uid = node.id_test.uid
        needs = []
        for vm in node.params.objects("vms"):
            vm_params = node.params.object_params(vm)
            for image in vm_params.objects("images"):
                ip = vm_params.object_params(image)
                for key in ("images", "vms"):
                    st = ip.get(f"get_state_{key}")
                    if st and st != "0root" and vm != "vm3":
                        locs = node.params.get(f"get_location_{image}_{vm}", "").split()
                        srcs = [l.split(":")[0] for l in locs]
                        avail = (vm, st) in sim.own[w] or ((vm, st) in sim.shared and "" in srcs) or any((vm, st) in sim.own[s] for s in srcs if s)
                        if not avail:
                            holders = [x for x in sim.own if (vm, st) in sim.own[x]]
                            violations.append((w, short(node.params["shortname"]), vm, st, locs, holders))
                        needs.append((vm, st))
        sim.log.append(("start", w, short(node.params["shortname"])))
        await asyncio.sleep(sim.duration(node))
        n = len([r for r in sim.runs if r[2] == name])
        status = fail(node, n) if fail else "PASS"
        sim.runs.append((w, node.params["shortname"], name, status, 0, 0, dict(node.params)))
        sim.log.append(("end", w, short(node.params["shortname"]), status))
        if status in ("PASS", "WARN"):
            sim.own[w] |= set(needs)
            for vm in node.params.objects("vms"):
                vm_params = node.params.object_params(vm)
                for image in vm_params.objects("images"):
                    ip = vm_params.object_params(image)
                    for key in ("images", "vms"):
                        st = ip.get(f"set_state_{key}")
                        if st:
                            sim.own[w].add((vm, st))
        tid = type("Mock", (), {"uid": uid, "name": name})()
        self.job.result.tests.append({"name": tid, "status": status, "time_elapsed": "1", "logdir": "."})
    p = mock.patch.object(TestRunner, 'run_test_task', task); p.start()
    err = None
    try:
        run_traversal(graph, runner, params, timeout=300)
    except BaseException as e:
        err = e
    p.stop()
    for pp in patches: pp.stop()
    return sim, graph, violations, err

if __name__ == "__main__":
    shared = {("vm1", s) for s in ["root", "install", "customize", "connect", "linux_virtuser", "on_customize"]} | {("vm2", s) for s in ["root", "install", "customize", "windows_virtuser"]}
    for nets in sys.argv[2].split(","):
        for seed in range(int(sys.argv[3])):
            sim, graph, v, err = run(sys.argv[1], nets, seed=seed, shared=shared)
            print(nets, seed, "err", repr(err)[:200], "viol", v)
            if v or "-v" in sys.argv:
                for l in sim.log: print("    ", l)
