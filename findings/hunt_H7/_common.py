import os, sys
sys.path.insert(0, os.getcwd())
import avocado_i2n
assert avocado_i2n.__file__.startswith(os.getcwd() + os.sep), avocado_i2n.__file__
import logging
logging.disable(logging.CRITICAL)
