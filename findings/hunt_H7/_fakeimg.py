"""Minimal file-backed stand-in for virttest's QemuImg (no qemu-img binary here).

An "image" is a small JSON file {"backing": <path or "">, "data": <str>}; only the
calls used by avocado_i2n.states.{qcow2,pool} are provided and the file name and
backing file are derived exactly like virttest does (storage.get_image_filename,
image_chain -> base tag)."""
import json, os
from virttest import storage


def write_image(path, backing="", data=""):
    os.makedirs(os.path.dirname(path), exist_ok=True)
    with open(path, "w") as fd:
        json.dump({"backing": backing, "data": data}, fd)


def read_image(path):
    with open(path) as fd:
        return json.load(fd)


class FakeQemuImg:
    def __init__(self, params, root_dir, tag):
        self.params, self.root_dir, self.tag = params, root_dir, tag
        self.image_filename = storage.get_image_filename(params, root_dir)
        self.base_image_filename = None
        chain = params.objects("image_chain")
        if tag in chain and chain.index(tag) > 0:
            base_params = params.object_params(chain[chain.index(tag) - 1])
            self.base_image_filename = storage.get_image_filename(base_params, root_dir)

    def info(self, force_share=False, output="human"):
        image = read_image(self.image_filename)
        info = {"filename": self.image_filename, "format": "qcow2"}
        if image["backing"]:
            info["backing-filename"] = image["backing"]
        return json.dumps(info)

    def create(self, params, ignore_errors=False):
        if self.base_image_filename and not os.path.exists(self.base_image_filename):
            raise RuntimeError(f"missing backing file {self.base_image_filename}")
        write_image(self.image_filename, self.base_image_filename or "")
        return self.image_filename, None

    def commit(self, params=None, cache_mode=None, base=None, drop=False):
        image = read_image(self.image_filename)
        backing = read_image(image["backing"])
        backing["data"] += image["data"]
        write_image(image["backing"], backing["backing"], backing["data"])
        write_image(self.image_filename, image["backing"], "")
