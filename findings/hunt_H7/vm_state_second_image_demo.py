"""C17: a vm state exists exactly when all of the vm's images have it (qcow2vt, 2 images).

QEMU's savevm creates the internal snapshot on every writable qcow2 image of the vm but
stores the vm (ram/device) state in only ONE of them - the first image that supports
snapshots; on all other images the snapshot of the same name is recorded with a vm state
size of 0 (qemu: block/snapshot.c bdrv_all_create_snapshot(): "sn->vm_state_size =
(bs == vm_state_bs ? vm_state_size : 0)").  So a perfectly valid on state 'launch' of a vm
with two images is listed by qemu-img as

    image1:  1  launch   317 MiB ...        image2:  1  launch   0 B ...

QCOW2VTBackend.show() filters the listing of EVERY image with the "on" regex (size > 0)
and intersects the results, so image2 contributes nothing and the vm state is reported
missing for any vm with more than one image (and savevm'ed states can never be reused).

Real code used: setup.check_states/show_states, qcow2.QCOW2VTBackend/QCOW2Backend; only the
qemu-img snapshot listing (text in the format of the project's own tests), the vm object and
file existence are mocked.  Exit 1 if the violation is present.
"""
import os, sys
sys.path.insert(0, os.path.join(os.getcwd(), "hunt")); import _common
from unittest import mock
from virttest.utils_params import Params
from avocado_i2n.states import setup as ss, qcow2


class NullBackend(ss.StateBackend):
    pass


ss.BACKENDS.clear()
ss.BACKENDS.update({"qcow2vt": qcow2.QCOW2VTBackend, "null": NullBackend})

LISTINGS = {
    # image holding the vm state
    "image1": "0         launch         317 MiB 2024-01-01 10:00:00   00:01:00.000\n"
              "1         off_only           0 B 2024-01-01 10:00:00   00:00:00.000\n",
    # further image of the same vm: same snapshot, no vm state stored here
    "image2": "0         launch             0 B 2024-01-01 10:00:00   00:01:00.000\n",
}


class FakeQemuImg:
    def __init__(self, params, root_dir, tag):
        self.tag = tag

    def snapshot_list(self, force_share=False):
        return LISTINGS[self.tag]


def make_params(images):
    return Params({
        "nets": "net1", "vms": "vm1", "images": images, "states_chain": "nets vms images",
        "states_nets": "null", "states_vms": "qcow2vt", "states_images": "null",
        "skip_types": "nets/vms/images nets",
        "image_name_image1": "disk1", "image_name_image2": "disk2", "image_format": "qcow2",
        "qemu_img_binary": "qemu-img", "vms_base_dir": "/images", "images_base_dir": "/images/vm1",
        "pool_scope": "own", "check_state_vms": "launch", "check_mode": "rr",
    })


vm = mock.MagicMock(name="vm1")
vm.is_alive.return_value = True
env = mock.MagicMock(name="env")
env.get_vm.return_value = vm
results = {}
with mock.patch("avocado_i2n.states.qcow2.QemuImg", FakeQemuImg), \
        mock.patch("avocado_i2n.states.qcow2.os.path.exists", return_value=True):
    for images in ("image1", "image1 image2"):
        results[images] = (ss.check_states(make_params(images), env),
                           sorted(ss.show_states(make_params(images), env)))
        print(f"vm1 with images [{images}]: check_states('launch') -> {results[images][0]}, "
              f"vm states listed: {results[images][1]}")

bad = results["image1 image2"] != (True, ["launch"]) or results["image1"] != (True, ["launch"])
if bad:
    print("VIOLATION: the on state 'launch' is carried by every image of vm1 (vm state on image1, "
          "plain snapshot on image2 as written by savevm) but is not listed as a vm state")
    sys.exit(1)
print("OK: the vm state is found and the image-only snapshot 'off_only' is not taken for a vm state")
