import os, sys, tempfile, shutil
sys.path.insert(0, os.path.join(os.getcwd(), "hunt")); import _common
from unittest import mock
from virttest.utils_params import Params
from avocado_i2n.states import setup as ss, qcow2, pool, ramfile
import _fakeimg

class NullBackend(ss.StateBackend):
    @classmethod
    def show(cls, params, object=None): return []
    @classmethod
    def check_root(cls, params, object=None): return True

def make_world(images=("image1",), scope="own shared", extra=None):
    tmp = tempfile.mkdtemp(prefix="h7_")
    w = {"tmp": tmp, "swarm": f"{tmp}/swarm", "shared": f"{tmp}/shared", "base": f"{tmp}/images"}
    for d in ("swarm", "shared", "base"): os.makedirs(w[d])
    ss.BACKENDS.clear()
    ss.BACKENDS.update({"qcow2ext": qcow2.QCOW2ExtBackend, "qcow2": qcow2.QCOW2Backend, "null": NullBackend,
                        "ramfile": ramfile.RamfileBackend})
    ramfile.RamfileBackend.image_state_backend = qcow2.QCOW2ExtBackend
    p = Params({"nets": "net1", "vms": "vm1", "images": " ".join(images), "states_chain": "nets vms images",
        "states_nets": "null", "states_vms": "null", "states_images": "qcow2ext",
        "image_format": "qcow2", "vms_base_dir": w["base"], "images_base_dir_vm1": w["base"] + "/vm1",
        "swarm_pool": w["swarm"], "shared_pool": w["shared"], "pool_scope": scope, "object_id_vm1": "vm1-id",
        "check_mode": "rr", "nets_gateway": "", "nets_host": "", "qemu_img_binary": "qemu-img",
        "skip_types": "nets nets/vms"})
    for i in images:
        p[f"image_name_{i}"] = "disk" + i[-1]
    p.update(extra or {})
    w["params"] = p
    patches = [mock.patch("avocado_i2n.states.qcow2.QemuImg", _fakeimg.FakeQemuImg),
               mock.patch("avocado_i2n.states.pool.QemuImg", _fakeimg.FakeQemuImg)]
    for pa in patches: pa.start()
    w["patches"] = patches
    return w

def close_world(w):
    for pa in w["patches"]: pa.stop()
    shutil.rmtree(w["tmp"])

def tree(root):
    out = []
    for d, _, fs in os.walk(root):
        for f in fs: out.append(os.path.relpath(os.path.join(d, f), root))
    return sorted(out)
