"""C12/C13: a vm (boot) root state cannot be provided by the pool - check_root knows, get_root doesn't.

RootSourcedStateBackend.check_root() ignores the shared pool for vm objects ("boot state ...
cannot be handled remotely") but its sibling get_root() has no such guard: for a *running* vm
(= existing vm root state) whose image is also in the shared pool it compares the image that
the running vm writes to with the pool copy and, as they of course differ, downloads the pool
image on top of the disk of the running vm.  This happens from a plain check_states() of an
on state (every get/set/unset/check of a vm state starts with it).

Real code used: setup.check_states, qcow2.QCOW2VTBackend, pool.RootSourcedStateBackend,
pool.QCOW2ImageTransfer, pool.TransferOps on real files; only the vm object and the qemu-img
snapshot listing are mocked.  Exit 1 if the violation is present.
"""
import os, sys, tempfile, shutil
sys.path.insert(0, os.path.join(os.getcwd(), "hunt")); import _common
from unittest import mock
from virttest.utils_params import Params
from avocado_i2n.states import setup as ss, qcow2


class NullBackend(ss.StateBackend):
    pass


ss.BACKENDS.clear()
ss.BACKENDS.update({"qcow2vt": qcow2.QCOW2VTBackend, "null": NullBackend})
tmp = tempfile.mkdtemp(prefix="h7_")
base, shared = f"{tmp}/images", f"{tmp}/shared"
local, remote = f"{base}/vm1/image.qcow2", f"{shared}/vm1/image.qcow2"
os.makedirs(os.path.dirname(local)); os.makedirs(os.path.dirname(remote))
open(local, "w").write("disk of the running vm with an on state")
open(remote, "w").write("pristine pool image")
params = Params({
    "nets": "net1", "vms": "vm1", "images": "image1", "states_chain": "nets vms images",
    "states_nets": "null", "states_vms": "qcow2vt", "states_images": "null",
    # only the vm is addressed (this is what the env process "on" hooks do)
    "skip_types": "nets/vms/images nets",
    "image_name": "image", "image_format": "qcow2", "qemu_img_binary": "qemu-img",
    "vms_base_dir": base, "images_base_dir": f"{base}/vm1",
    "shared_pool": shared, "pool_scope": "own shared",
    "check_state_vms": "launch", "check_mode": "rr",
})
vm = mock.MagicMock(name="vm1")
vm.is_alive.return_value = True
env = mock.MagicMock(name="env")
env.get_vm.return_value = vm
listing = ("Snapshot list:\nID        TAG               VM SIZE                DATE     VM CLOCK     ICOUNT\n"
           "1         launch            317 MiB 2024-01-01 10:00:00 00:01:00.000           \n")
with mock.patch("avocado_i2n.states.qcow2.QemuImg") as qemu_img:
    qemu_img.return_value.snapshot_list.return_value = listing
    exists = ss.check_states(params, env)
content = open(local).read()
shutil.rmtree(tmp)
print(f"check_states(on state 'launch' of the running vm1) -> {exists}; vm1 disk image now contains: {content!r}")
if content != "disk of the running vm with an on state":
    print("VIOLATION: checking a vm state replaced the disk image of the running vm with the pool copy")
    sys.exit(1)
print("OK: the image of the running vm was left alone")
