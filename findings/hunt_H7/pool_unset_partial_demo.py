"""C13: removing a state must reach every permitted mirror.

SourcedStateBackend.show() reports a state present if it is in the local cache OR in the
permitted pool sources, but SourcedStateBackend.unset() then removes it blindly from the
cache AND from every permitted source.  If the state lives in only one of them the first
removal of a missing file raises FileNotFoundError, so

  (1) a state that is only in the shared pool is never removed from the pool (the local
      removal raises first) and stays listed,
  (2) a state that is only in the cache is removed but the operation still errors out on
      the pool (and leaves a stray lock file + directories behind in the pool).

Real code used: setup.unset_states/show_states, qcow2.QCOW2ExtBackend, pool.SourcedStateBackend,
pool.QCOW2ImageTransfer, pool.TransferOps (real files in a temporary directory, real locks).
Exit 1 if the violation is present.
"""
import os, sys
sys.path.insert(0, os.path.join(os.getcwd(), "hunt"))
from _world import make_world, close_world, tree, ss

bad = []
for case in ("pool-only", "cache-only"):
    w = make_world(scope="own shared")
    loc = ":" + w["shared"]
    cache_state = f"{w['swarm']}/vm1-id/image1/launch.qcow2"
    pool_state = f"{w['shared']}/vm1-id/image1/launch.qcow2"
    # the vm image (root state) exists locally
    os.makedirs(f"{w['base']}/vm1"); open(f"{w['base']}/vm1/disk1.qcow2", "w").close()
    target = pool_state if case == "pool-only" else cache_state
    os.makedirs(os.path.dirname(target)); open(target, "w").write("state data")

    p = w["params"].copy()
    p.update({"unset_state_images": "launch", "unset_location_images": loc, "unset_mode": "fa",
              "show_location_images": loc})
    before = ss.show_states(p.copy(), None)
    error = None
    try:
        ss.unset_states(p.copy(), None)
    except Exception as e:
        error = e
    after = ss.show_states(p.copy(), None)
    # lock files of states that were in the pool are kept by design, anything else is a leftover
    leftovers = [t for t in tree(w["tmp"]) if "launch" in t
                 and not (case == "pool-only" and t.endswith(".lock"))]
    print(f"[{case}] listed before: {before}; unset raised: {error!r}; listed after: {after}; leftovers: {leftovers}")
    if error is not None or "launch" in after or leftovers:
        bad.append(case)
    close_world(w)

if bad:
    print("VIOLATION: unset of a state present in only one of cache/pool fails:", bad)
    sys.exit(1)
print("OK: state removed from wherever it was, no error, no leftovers")
