"""C12/C13: updating the shared pool from the local root state (pool_scope=shared).

RootSourcedStateBackend.set_root()/unset_root() implement "update the pool" for
pool_scope=shared (upload the local image / remove the pool image, refusing without a local
root).  The only way to reach them is setup.set_states()/unset_states() with a root state
keyword, but both first run check_states() whose "root exists" branch always calls
get_root() - which for pool_scope=shared means *download the pool image over the local one*.

  case 1: pool has an older image  -> the new local image is overwritten with the old pool
          copy before the "upload", the local changes are lost and the pool is not updated
  case 2: pool has no image yet    -> FileNotFoundError, nothing is uploaded
  case 3: remove the root from the pool only -> the local image is overwritten with the
          pool copy right before that copy is deleted

Real code used: setup.set_states/unset_states/check_states, qcow2.QCOW2Backend,
pool.RootSourcedStateBackend, pool.QCOW2ImageTransfer, pool.TransferOps on real files.
Exit 1 if the violation is present.
"""
import os, sys, tempfile, shutil
sys.path.insert(0, os.path.join(os.getcwd(), "hunt")); import _common
from virttest.utils_params import Params
from avocado_i2n.states import setup as ss, qcow2


class NullBackend(ss.StateBackend):
    pass


def run(case):
    ss.BACKENDS.clear()
    ss.BACKENDS.update({"qcow2": qcow2.QCOW2Backend, "null": NullBackend})
    tmp = tempfile.mkdtemp(prefix="h7_")
    base, shared = f"{tmp}/images", f"{tmp}/shared"
    local, remote = f"{base}/vm1/image.qcow2", f"{shared}/vm1/image.qcow2"
    os.makedirs(os.path.dirname(local)); os.makedirs(os.path.dirname(remote))
    open(local, "w").write("NEW local image")
    if case != 2:
        open(remote, "w").write("OLD pool image")
    params = Params({
        "nets": "net1", "vms": "vm1", "images": "image1", "states_chain": "nets vms images",
        "states_nets": "null", "states_vms": "null", "states_images": "qcow2",
        # only the image is addressed (this is what the env process "off" hooks do)
        "skip_types": "nets nets/vms",
        "image_name": "image", "image_format": "qcow2",
        "vms_base_dir": base, "images_base_dir": f"{base}/vm1",
        "shared_pool": shared, "pool_scope": "shared",
        # don't force any root creation from the check
        "check_mode": "rr",
    })
    if case in (1, 2):
        params.update({"set_state_images": "root", "set_mode": "ff"})
        operation, expected = ss.set_states, ("NEW local image", "NEW local image")
    else:
        params.update({"unset_state_images": "root", "unset_mode": "fa"})
        operation, expected = ss.unset_states, ("NEW local image", None)
    error = None
    try:
        operation(params, None)
    except Exception as e:
        error = e
    result = tuple(open(f).read() if os.path.exists(f) else None for f in (local, remote))
    shutil.rmtree(tmp)
    ok = error is None and result == expected
    print(f"case {case}: {operation.__name__}(root, pool_scope=shared) raised {error!r}; "
          f"(local, pool) = {result}, expected {expected} -> {'ok' if ok else 'VIOLATION'}")
    return ok


results = [run(case) for case in (1, 2, 3)]
sys.exit(0 if all(results) else 1)
