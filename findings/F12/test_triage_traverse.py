import os, sys
sys.path.insert(0, os.getcwd())
sys.path.insert(1, os.path.join(os.getcwd(), "selftests", "isolation"))
import test_cartesian_graph as tcg
from test_cartesian_graph import *


@mock.patch('avocado_i2n.cartgraph.worker.remote.wait_for_login', mock.MagicMock())
@mock.patch('avocado_i2n.cartgraph.node.door', DummyStateControl)
@mock.patch('avocado_i2n.plugins.runner.SpawnerDispatcher', mock.MagicMock())
@mock.patch.object(TestRunner, 'run_test_task', DummyTestRun.mock_run_test_task)
class TriageTraverse(tcg.CartesianGraphTest):

    def test_triage_b_incompatible_worker_upfront(self):
        self.config["param_dict"]["nets"] = "net1 net5"
        self.config["tests_str"] += "only tutorial1\n"
        graph = TestGraph.parse_object_trees(
            None, self.config["tests_str"],
            self.prefix, self.config["vm_strs"],
            self.config["param_dict"],
        )
        self.assertEqual(sorted(graph.workers), ["net1", "net5"])
        DummyStateControl.asserted_states["check"]["install"][self.shared_pool] = True
        DummyTestRun.asserted_tests = [
            {"shortname": "^internal.automated.customize.vm1", "vms": "^vm1$", "nets": "^net1$"},
            {"shortname": "^internal.automated.on_customize.vm1", "vms": "^vm1$", "nets": "^net1$"},
            {"shortname": "^normal.nongui.quicktest.tutorial1.vm1", "vms": "^vm1$", "nets": "^net1$"},
        ]
        self._run_traversal(graph, self.config["param_dict"])

    def test_triage_a_two_sets_upfront(self):
        self.config["tests_str"] = "only tutorial_get..implicit_both\n"
        graph = TestGraph.parse_object_trees(
            None, self.config["tests_str"],
            self.prefix, self.config["vm_strs"],
            self.config["param_dict"],
        )
        self.assertEqual(len(graph.nodes), len(set(graph.nodes)))
        self.assertEqual(len(graph.nodes), len({n.id for n in graph.nodes}))
