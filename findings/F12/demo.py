"""Triage demo for SUSPECT B: one vm-incompatible worker empties the whole graph.

vm1 = "only CentOS" and nets containing net5 (net5: only_vm1 = Fedora).
Exit 1 if parse_object_trees raises EmptyCartesianProduct for the whole
multi-worker graph although another selected worker (net1) is parsable, else 0.
"""
import os
import sys

sys.path.insert(0, os.getcwd())
sys.path.insert(1, os.path.join(os.getcwd(), "selftests", "isolation"))
import avocado_i2n
assert os.path.abspath(avocado_i2n.__file__).startswith(os.getcwd() + os.sep), avocado_i2n.__file__

from avocado_i2n import params_parser as param
from avocado_i2n.cartgraph import TestGraph

restriction = (sys.argv[1] if len(sys.argv) > 1 else "only normal\nonly tutorial1\n").replace("\\n", "\n")
nets = sys.argv[2] if len(sys.argv) > 2 else "net1 net5"
vm_strs = {"vm1": "only CentOS\n", "vm2": "only Win10\n", "vm3": "only Ubuntu\n"}


def params_for(nets):
    return {"nets": nets, "test_timeout": 100, "shared_pool": "/mnt/local/images/shared"}


def outcome(nets):
    try:
        graph = TestGraph.parse_object_trees(None, restriction, "", dict(vm_strs), params_for(nets))
    except param.EmptyCartesianProduct as error:
        return None, error
    return graph, None


print(f"restriction={restriction!r} vm_strs={vm_strs!r}")
print("--- each worker parsed on its own")
single = {}
for net in nets.split(" "):
    graph, error = outcome(net)
    single[net] = graph
    if error is not None:
        print(f"   nets={net!r}: raises {type(error).__name__}: {str(error).strip().splitlines()[0][:100]}...")
    else:
        print(f"   nets={net!r}: parsed {len(graph.nodes)} nodes, "
              f"{len(graph.get_nodes_by_name('tutorial1'))} tutorial1 node(s)")

print(f"--- all workers together nets={nets!r}")
graph, error = outcome(nets)
if error is not None:
    print(f"   raises {type(error).__name__} for the whole graph:")
    for line in str(error).strip().splitlines()[:8]:
        print(f"      {line[:110]}")
    parsable = [n for n, g in single.items() if g is not None]
    if parsable:
        print(f"RESULT: suspected behaviour PRESENT (workers {parsable} are parsable on their own "
              f"but the multi-worker parse raised)")
        sys.exit(1)
    print("RESULT: no selected worker can run anything, the error is legitimate")
    sys.exit(0)

print(f"   parsed {len(graph.nodes)} nodes for workers {sorted(graph.workers)}")
for worker_id in sorted(graph.workers):
    worker = graph.workers[worker_id]
    own = [n for n in graph.nodes if not n.is_flat() and n.objects[0].long_suffix == worker.id]
    print(f"   worker {worker.id}: {len(own)} node(s) in its copy")
print("RESULT: multi-worker graph parsed, incompatible worker left without tests")
sys.exit(0)
