#!/venv/bin/python
"""
F8 demo: premature removal of a removable (unset_mode = f.) state with lazy parsing and two workers.

Run from the worktree root: /venv/bin/python finding_out/demo.py
Exit code: 0 = property C05 held, 1 = property C05 violated, 2 = scenario did not materialize.

The REAL TestGraph.traverse_object_trees / traverse_node / reverse_node / TestNode decision code
and the REAL TestRunner.run_test_node are exercised. Only the usual unit test boundaries are mocked:
- TestRunner.run_test_task (no real avocado-vt test is spawned; scripted test durations instead)
- avocado_i2n.cartgraph.node.door (the state control file runner; here a small model of the
  shared state pool that records check/get/set/unset requests)
- remote.wait_for_login and the SpawnerDispatcher
The duration of the slow "connect" setup test can be changed via F8_CONNECT_DURATION (default 5.0).
Time is virtual (the event loop clock jumps to the next timer) so that the schedule is deterministic.
"""
import os
import sys
import asyncio
import logging
import unittest.mock as mock

sys.path.insert(0, os.getcwd())
sys.path.insert(1, os.path.join(os.getcwd(), "selftests", "isolation"))

import avocado_i2n

assert os.path.abspath(avocado_i2n.__file__).startswith(os.getcwd() + os.sep), avocado_i2n.__file__

from aexpect.exceptions import ShellCmdError
from avocado_i2n.plugins.loader import TestLoader
from avocado_i2n.plugins.runner import TestRunner
from avocado_i2n.cartgraph import TestGraph, TestNode

logging.disable(logging.CRITICAL)

SHARED_POOL = "/mnt/local/images/shared"
#: scripted test durations in (virtual) seconds by substring of the test short name
DURATIONS = {"internal.automated.connect": float(os.environ.get("F8_CONNECT_DURATION", "5.0"))}
DEFAULT_DURATION = 1.0

#: the removable producer state and its dependant
PRODUCER_STATE = "guisetup.noop"
PRODUCER = "tutorial_gui.client_noop"
DEPENDANT = "tutorial_get.explicit_noop"

timeline = []
violations = []
LOOP = None


def now():
    return LOOP.time() if LOOP is not None else 0.0


def log(msg):
    line = f"[t={now():6.2f}] {msg}"
    timeline.append(line)
    print(line)


class VirtualTimeLoop(asyncio.SelectorEventLoop):
    """Event loop whose clock jumps straight to the next scheduled timer (deterministic schedules)."""

    def __init__(self):
        super().__init__()
        self._vtime = 0.0

    def time(self):
        return self._vtime

    def _run_once(self):
        if not self._ready and self._scheduled:
            self._vtime = max(self._vtime, self._scheduled[0]._when)
        super()._run_once()


class StatePool:
    """Minimal model of the shared state pool behind the mocked state control (door)."""

    #: states assumed available from previous runs (to shorten the setup chains)
    present = set()
    action = "check"
    params = {}
    current_worker = "?"

    @classmethod
    def requests(cls):
        """Extract (object, state) pairs for the current action just like DummyStateControl does."""
        params, do = cls.params, cls.action
        found = []
        for vm in params.objects("vms"):
            vm_params = params.object_params(vm)
            for image in params.objects("images"):
                image_params = vm_params.object_params(image)
                state = image_params.get(f"{do}_state_images")
                if not state:
                    state = image_params.get(f"{do}_state_vms")
                if state:
                    found.append((vm, state))
        return found

    @staticmethod
    def set_subcontrol_parameter(_, __, do):
        StatePool.action = do

    @staticmethod
    def set_subcontrol_parameter_dict(_, __, node_params):
        StatePool.params = node_params

    @staticmethod
    def run_subcontrol(session, mod_control_path):
        do = StatePool.action
        for vm, state in StatePool.requests():
            if do == "check":
                if (vm, state) not in StatePool.present:
                    raise ShellCmdError(1, "command", "AssertionError")
            elif do == "unset":
                nets = StatePool.params.get("nets")
                StatePool.present.discard((vm, state))
                log(f"{nets}: UNSET request for state '{state}' of {vm} "
                    f"(node {StatePool.params['shortname'][:60]}) -> state removed from pool")
                pending = pending_dependants(state)
                if pending:
                    msg = (f"state '{state}' of {vm} removed by {nets} while dependant(s) still "
                           f"pending/running: {pending}")
                    violations.append(msg)
                    log("  !!! " + msg)
            elif do == "get":
                log(f"GET (sync) request for state '{state}' of {vm}")


GRAPH = None


def pending_dependants(state):
    """All parsed composite nodes requiring the given state without a final (shared) result yet."""
    pending = []
    for node in GRAPH.nodes:
        if node.is_flat():
            continue
        for test_object in node.objects:
            object_params = test_object.object_typed_params(node.params)
            if object_params.get("get_state") == state:
                # a worker's copy counts as done if any equivalent (bridged) copy has a final result
                statuses = [r["status"] for r in node.shared_results]
                if len(statuses) == 0 or "UNKNOWN" in statuses:
                    pending.append(f"{node.params['nets']}:{node.params['shortname'][:60]} (shared results: {statuses})")
                break
    return pending


async def scripted_run_test_task(self, node):
    """Replacement of the test spawning boundary with scripted durations and a state pool model."""
    shortname = node.params["shortname"]
    worker = node.started_worker.id
    duration = DEFAULT_DURATION
    for key, value in DURATIONS.items():
        if key in shortname:
            duration = value
    # which states does the test need and produce?
    needs, sets = [], []
    for test_object in node.objects:
        if test_object.key == "nets":
            continue
        object_params = test_object.object_typed_params(node.params)
        vm = test_object.suffix if test_object.key == "vms" else test_object.composites[0].suffix
        get_state, set_state = object_params.get("get_state"), object_params.get("set_state")
        if get_state and (vm, get_state) not in needs:
            needs.append((vm, get_state))
        if set_state and (vm, set_state) not in sets:
            sets.append((vm, set_state))
    log(f"{worker}: START {shortname[:70]} (duration {duration}, needs {needs}, sets {sets})")
    status = "PASS"
    for vm, state in needs:
        if state in ["0root", "root", "install", "ready"]:
            continue
        if (vm, state) not in StatePool.present:
            status = "ERROR"
            msg = (f"{worker}: test {shortname[:70]} requires state '{state}' of {vm} "
                   f"which is no longer available in the pool")
            violations.append(msg)
            log("  !!! " + msg)
    await asyncio.sleep(duration)
    if status == "PASS":
        for vm, state in sets:
            StatePool.present.add((vm, state))
    log(f"{worker}: END   {shortname[:70]} -> {status}")
    mocktestid = type("Mock", (), {"uid": node.id_test.uid, "name": node.params["name"]})()
    self.job.result.tests.append({"name": mocktestid, "status": status,
                                  "time_elapsed": str(duration), "logdir": "."})


def spy_decisions():
    """Log the clean decisions for the producer (pure observation, real code is called)."""
    original = TestNode.default_clean_decision

    def spied(self, worker):
        decision = original(self, worker)
        if not self.is_flat() and PRODUCER in self.params["name"]:
            involved = sorted(w.id for w in self.shared_involved_workers)
            log(f"{worker.id}: clean decision for {self.params['shortname'][:50]} = {decision} "
                f"(involved workers: {involved})")
        return decision

    return spied


def main():
    global LOOP, GRAPH
    config = {
        "param_dict": {"nets": "net1 net2", "test_timeout": 100, "shared_pool": SHARED_POOL},
        "tests_str": "only normal\n",
        "vm_strs": {"vm1": "only CentOS\n", "vm2": "only Win10\n", "vm3": "only Ubuntu\n"},
    }
    TestLoader(config=config, extra_params={})
    job = mock.MagicMock()
    job.logdir = "."
    job.timeout = 6000
    job.result = mock.MagicMock()
    job.result.tests = []
    job.config = config
    runner = TestRunner()
    runner.job = job
    runner.status_server = job

    # states available from previous runs only to shorten the setup chains
    for vm in ["vm1", "vm2", "vm3"]:
        StatePool.present |= {(vm, "install"), (vm, "customize"), (vm, "root"), (vm, "ready")}

    # lazy parsing: only flat leaf nodes are known in advance, exactly like _load_for_parsing() of the unit tests
    graph = TestGraph()
    graph.restrs.update(config["vm_strs"])
    flat_nodes = TestGraph.parse_flat_nodes(f"leaves..{PRODUCER},leaves..{DEPENDANT}")
    for node in flat_nodes:
        node.update_restrs(config["vm_strs"])
    graph.new_nodes(flat_nodes)
    graph.parse_shared_root_from_object_roots()
    graph.new_workers(TestGraph.parse_workers({"nets": "net1 net2", "shared_pool": SHARED_POOL}))
    graph.runner = runner
    GRAPH = graph
    print("Flat (lazily expanded) leaves:", [n.params["shortname"] for n in flat_nodes])
    print("Scripted durations:", DURATIONS, "default", DEFAULT_DURATION)

    LOOP = VirtualTimeLoop()
    asyncio.set_event_loop(LOOP)
    workers = sorted(graph.workers.values(), key=lambda x: x.params["name"])
    assert len(workers) == 2
    with mock.patch("avocado_i2n.cartgraph.worker.remote.wait_for_login", mock.MagicMock()), \
            mock.patch("avocado_i2n.cartgraph.node.door", StatePool), \
            mock.patch("avocado_i2n.plugins.runner.SpawnerDispatcher", mock.MagicMock()), \
            mock.patch.object(TestRunner, "run_test_task", scripted_run_test_task), \
            mock.patch.object(TestNode, "default_clean_decision", spy_decisions()):
        # composite nodes bind should_clean at (lazy) construction time and thus pick up the spy
        to_traverse = [graph.traverse_object_trees(w, config["param_dict"]) for w in workers]
        LOOP.run_until_complete(asyncio.gather(*to_traverse))

    print()
    dependants = [n for n in graph.nodes if not n.is_flat() and DEPENDANT in n.params["name"]]
    producers = [n for n in graph.nodes if not n.is_flat() and PRODUCER in n.params["name"]]
    print("Producer copies:", [(n.params["nets"], n.params["shortname"][:40], [r["status"] for r in n.results]) for n in producers])
    print("Dependant copies:", [(n.params["nets"], n.params["shortname"][:40], [r["status"] for r in n.results]) for n in dependants])
    leaked = sorted(s for s in StatePool.present if s[1] == PRODUCER_STATE)
    print(f"Removable state still in the pool at the end of the run: {leaked if leaked else 'no (was removed)'}")
    if not dependants or not producers:
        print("RESULT: scenario did not materialize (no producer/dependant parsed)")
        return 2
    if violations:
        print(f"RESULT: property C05 VIOLATED ({len(violations)} event(s)):")
        for violation in violations:
            print("  - " + violation)
        return 1
    print("RESULT: property C05 held (removable state only removed after all dependants finished)")
    return 0


if __name__ == "__main__":
    sys.exit(main())
