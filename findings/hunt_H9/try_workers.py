from hunt.common import *
for nets in ["net6", "net6 cluster1.net6", "cluster1.net6 cluster2.net6"]:
    ws = TestGraph.parse_workers({"nets": nets})
    print(nets, "->", [(w.id, w.params["name"], w.params["nets_spawner"]) for w in ws])
