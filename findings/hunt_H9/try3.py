from hunt.common import *
import sys, traceback
restr = sys.argv[1].replace("\\n", "\n")
vm_strs = eval(sys.argv[2]); params = eval(sys.argv[3])
for p in patches(): p.start()
runner = make_runner(dict(params), vm_strs)
AnyRun.runs = []
lg = lazy_graph(restr, vm_strs, dict(params))
try:
    traverse(lg, runner, dict(params, test_timeout=100), timeout=300)
except BaseException:
    traceback.print_exc()
sdump(lg)
for r in AnyRun.runs: print("RUN", r[0], short(type("N", (), {"params": {"name": r[1]}, "prefix": r[0]})()), r[2], r[3])
