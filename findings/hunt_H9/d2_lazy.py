import os
os.environ["H9_SUITE"] = "d2"
from hunt.common import *
import sys, re, collections
vm_strs = {'vm1': 'only CentOS\n', 'vm2': 'only Win10\n', 'vm3': 'only Ubuntu\n'}
params = {"nets": "net1 net2"}
restr = "only leaves..deep2,leaves..deep3,leaves..deep4\n"
for p in patches(): p.start()
def netless(x): return re.sub(r"nets\.\w+\.net\d+", "NET", x)
def summary(graph):
    res = collections.Counter()
    for n in graph.nodes:
        if n.is_flat() or n.cloned_nodes or not re.search(r"\.deep\d\.", n.params["name"]): continue
        test = re.search(r"\.(deep\d)\.", n.params["name"]).group(1)
        parents = frozenset(netless(s.setless_form).split(".vms")[0] for s in n.setup_nodes if not s.is_flat())
        states = (n.params.get("get_state_images_image1_vm1"), n.params.get("get_state_images_image1_vm2"))
        res[(test, n.objects[0].suffix, parents, states)] += 1
    return res
g = TestGraph.parse_object_trees(None, restr, object_restrs=vm_strs, params=dict(params))
es = summary(g)
lg = lazy_graph(restr, vm_strs, dict(params))
runner = make_runner(dict(params), vm_strs); AnyRun.runs = []
traverse(lg, runner, dict(params, test_timeout=100), timeout=900)
ls = summary(lg)
print("eager runnable:", sum(es.values()), "lazy runnable:", sum(ls.values()))
# lazy workers share the tests, so compare per test ignoring the net
def strip(c): return collections.Counter({(k[0], k[2], k[3]) for k in c})
print("same combos (net-agnostic):", set(strip(es)) == set(strip(ls)))
for k in sorted(set(strip(es)) ^ set(strip(ls)), key=str): print("DIFF", k)
ran = collections.Counter(netless(r[1]).split(".vms")[0] for r in AnyRun.runs if re.search(r"\.deep\d\.", r[1]))
print("executed deep clones:", len(ran), "max repeats", max(ran.values()))
print(check_graph(lg, verbose=False)[:5])
for n in lg.nodes:
    if n.is_flat() or not re.search(r"\.deep\d\.", n.params["name"]): continue
    print(short(n).split(".vms")[0], n.objects[0].suffix, "SOURCE" if n.cloned_nodes else "run", [short(s).split(".vms")[0] for s in n.setup_nodes])
