from hunt.common import *
import sys, traceback
restr = sys.argv[1].replace("\\n", "\n")
vm_strs = eval(sys.argv[2]); params = eval(sys.argv[3])
for p in patches(): p.start()
g = TestGraph.parse_object_trees(None, restr, object_restrs=vm_strs, params=dict(params))
sdump(g)
check_graph(g)
for n in g.nodes:
    if n.is_object_root(): print("object_root", short(n), "=", n.params["object_root"][:60], "terminal:", n.get_terminal_object())
runner = make_runner(dict(params), vm_strs)
AnyRun.runs = []
try:
    traverse(g, runner, dict(params, test_timeout=100), timeout=300)
except BaseException:
    traceback.print_exc()
for r in AnyRun.runs: print("RUN", r[0], r[1][:80], r[2], r[3])
