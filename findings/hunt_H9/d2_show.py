import os
os.environ.setdefault("H9_SUITE", "d2")
from hunt.common import *
import sys
vm_strs = {'vm1': 'only CentOS\n', 'vm2': 'only Win10\n', 'vm3': 'only Ubuntu\n'}
test = sys.argv[1]
graph = TestGraph.parse_object_trees(None, f"only leaves..{test}\n", object_restrs=vm_strs, params={"nets": "net1"})
for n in graph.nodes:
    if n.is_flat(): continue
    nm = short(n)
    if "internal" in nm or "original" in nm: continue
    print("  ", nm.split(".vms")[0], "SOURCE" if n.cloned_nodes else "runnable", "<=", [short(s).split(".vms")[0] for s in n.setup_nodes], {k: v for k, v in n.params.items() if k.startswith("get_state_images_image") or k.startswith("set_state_images_image")})
check_graph(graph)
