"""
Demo (C06/C07/C09): clones are named by inserting the producer's state name as extra name variants
(test.<state>.vms...). Node identity is then matched by unanchored name tails / contiguous
sub-names (TestNode.bridged_form, get_and_parse_nodes_from_flat_node_and_object), so a state that is
named after its producing test - the convention of the shipped suite (customize, connect, ...) -
makes the clone of a dependant pass for the producer itself.

Generated suite hunt/suites/d3 = shipped configs + prepA.{one,two} (vm1 image states "prepA.one",
"prepA.two") + usera, userb (vm1, get_images = prepA).
Run: /venv/bin/python -m hunt.nameclash_demo   (exit 1 = violation present)
"""
import os
os.environ["H9_SUITE"] = "d3"
from hunt.common import *
import sys, re, traceback

vm_strs = {'vm1': 'only CentOS\n', 'vm2': 'only Win10\n', 'vm3': 'only Ubuntu\n'}
bad = []
for p in patches(): p.start()

def netless(x): return re.sub(r"nets\.\w+\.net\d+", "NET", x)

for selection, nets in [("only leaves..usera\n", "net1"), ("only leaves..usera,leaves..userb\n", "net1 net2")]:
    tag = selection.strip() + " on " + nets
    params = {"nets": nets}
    try:
        graph = TestGraph.parse_object_trees(None, selection, object_restrs=vm_strs, params=dict(params))
    except Exception as error:
        tb = traceback.extract_tb(error.__traceback__)[-1]
        bad.append(f"[{tag}] parse failed at {os.path.basename(tb.filename)}:{tb.lineno}: {str(error)[:260]}")
        continue
    users = [n for n in graph.nodes if not n.is_flat() and re.search(r"\.user[ab]\.", n.params["name"]) and not n.cloned_nodes]
    print(f"[{tag}] runnable dependants:", len(users))
    for n in users:
        parents = [s for s in n.setup_nodes if not s.is_flat()]
        got = n.params.get("get_state_images_image1_vm1")
        sets = [s.params.get("set_state_images") for s in parents]
        print("    ", short(n).split(".vms")[0], n.objects[0].suffix, "get_state", got, "<=", [short(s).split(".vms")[0] for s in parents])
        if len(parents) != 1 or ".prepA." not in parents[0].params["name"] or sets != [got]:
            bad.append(f"[{tag}] {short(n).split('.vms')[0]} gets state {got} from parents {[short(s).split('.vms')[0] for s in parents]} setting {sets}")
    want = 2 * len(nets.split()) * (2 if "userb" in selection else 1)
    if len(users) != want:
        bad.append(f"[{tag}] {len(users)} runnable dependants instead of {want}")
    for n in graph.nodes:
        for b in n.bridged_nodes:
            if netless(b.setless_form) != netless(n.setless_form):
                bad.append(f"[{tag}] {short(n).split('.vms')[0]} bridged with different test {short(b).split('.vms')[0]}")
    # previous results are attributed with the same matching
    for n in graph.nodes:
        if n.is_flat() or not n.setless_form.startswith("prepA."):
            continue
        for u in users:
            if re.search(n.bridged_form, u.params["name"]):
                bad.append(f"[{tag}] results of {short(u).split('.vms')[0]} count as previous results of {short(n).split('.vms')[0]}")
    bad += [f"[{tag}] {e}" for e in check_graph(graph, verbose=False)]
    # lazy expansion and traversal
    AnyRun.runs = []
    runner = make_runner(dict(params), vm_strs)
    lg = lazy_graph(selection, vm_strs, dict(params))
    try:
        traverse(lg, runner, dict(params, test_timeout=100), timeout=300)
    except BaseException as error:
        tb = traceback.extract_tb(error.__traceback__)[-1]
        bad.append(f"[{tag}] lazy traversal failed at {os.path.basename(tb.filename)}:{tb.lineno}: {str(error)[:260]}")
    ran = sorted({netless(r[1]).split(".vms")[0].split(".", 1)[1] for r in AnyRun.runs if re.search(r"\.user[ab]\.", r[1])})
    print(f"[{tag}] lazily executed dependants:", ran)
    want_ran = sorted(f"{u}.prepA.{v}" for u in (["usera", "userb"] if "userb" in selection else ["usera"]) for v in ["one", "two"])
    if ran != want_ran:
        bad.append(f"[{tag}] lazily executed dependants {ran} instead of {want_ran}")
for b in bad:
    print("VIOLATION:", b[:600])
sys.exit(1 if bad else 0)
