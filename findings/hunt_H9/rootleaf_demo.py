"""
Demo (C02/C06): selecting an object creation ("original") test directly, e.g. with the shipped
main restriction `only nonleaves` (= internal + original tests) or `only all..unattended_install`,
makes the parsed install node claim the *net* as the object it creates (object_root = net id)
and the traversal dies in traverse_terminal_node with "not enough values to unpack".
Both up-front and lazy parsing are exercised.
Run: /venv/bin/python -m hunt.rootleaf_demo   (exit 1 = violation present)
"""
from hunt.common import *
import sys, traceback

restr = "only nonleaves..original\nonly unattended_install..cdrom..extra_cdrom_ks\n"
vm_strs = {"vm1": "only CentOS\n"}
params = {"nets": "net1", "vms": "vm1"}
for p in patches(): p.start()
bad = []

def run(graph, mode):
    runner = make_runner(dict(params), vm_strs)
    AnyRun.runs = []
    try:
        traverse(graph, runner, dict(params, test_timeout=100), timeout=120)
    except BaseException as error:
        tb = traceback.extract_tb(error.__traceback__)[-1]
        bad.append(f"{mode}: traversal error {error!r} at {os.path.basename(tb.filename)}:{tb.lineno} ({tb.name})")
    roots = [n for n in graph.nodes if n.is_object_root()]
    for n in roots:
        terminal = n.get_terminal_object()
        print(f"{mode}: {short(n)} object_root={n.params['object_root'][:40]}... terminal object={terminal.long_suffix if terminal else None} ({terminal.key if terminal else None})")
        if terminal is None or terminal.key != "images":
            bad.append(f"{mode}: creation node {short(n)} is the root of {terminal.key if terminal else None} object instead of a vm image")
    print(f"{mode}: executed", [(r[0], r[1].split('.vms')[0], r[2]) for r in AnyRun.runs])
    installs = [r for r in AnyRun.runs if ".original." in r[1]]
    if len(installs) == 0:
        bad.append(f"{mode}: selected install test was never executed")

graph = TestGraph.parse_object_trees(None, restr, object_restrs=vm_strs, params=dict(params))
run(graph, "eager")
graph = lazy_graph(restr, vm_strs, dict(params))
run(graph, "lazy")
for b in bad:
    print("VIOLATION:", b)
sys.exit(1 if bad else 0)
