from hunt.common import *
import time, sys
restr = sys.argv[1].replace("\\n", "\n")
vm_strs = eval(sys.argv[2])
params = eval(sys.argv[3])
t=time.time()
g = TestGraph.parse_object_trees(None, restr, object_restrs=vm_strs, params=params)
print("parse time", time.time()-t, "nodes", len(g.nodes))
sdump(g)
check_graph(g)
