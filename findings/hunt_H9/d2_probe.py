from hunt.common import *
import sys, traceback
restr = sys.argv[1].replace("\\n", "\n")
vm_strs = {'vm1': 'only CentOS\n', 'vm2': 'only Win10\n', 'vm3': 'only Ubuntu\n'}
graph = TestGraph()
graph.restrs = vm_strs
graph.new_workers(TestGraph.parse_workers({"nets": "net1"}))
worker = list(graph.workers.values())[0]
leaves, stubs = TestGraph.parse_object_nodes(worker, restr, object_restrs=vm_strs, params={"nets": "net1"})
graph.new_nodes(leaves); graph.new_objects(stubs)
try:
    for leaf in leaves:
        for _, _, current in graph.parse_paths_to_object_roots(leaf, worker.net, {"nets": "net1"}):
            current.validate()
except Exception:
    traceback.print_exc()
sdump(graph)
