"""
Demo (C07/C06/C02): re-cloning of a node that already is a clone (or a clone source).

Generated suite hunt/suites/d2 = shipped tp_folder/configs + appended tests
  prepA.{one,two} (vm1 image producers of states sa1/sa2), mid (get prepA, sets smid)
  deep2: vm1 image <- prepA (2 producers),  vm2 image <- tutorial_gui (2 producers)
  deep3: vm1 image <- prepA (2 producers),  vm2 image <- tutorial_get.implicit_both (cloned twice itself)
  deep4: vm1 image <- mid <- prepA (2),     vm2 image <- tutorial_gui (2 producers)
Each must end up as one runnable clone per producer combination (4), with branch-specific
get_state values matching the parents, and no other runnable instance.
Run: /venv/bin/python -m hunt.reclone_demo   (exit 1 = violation present)
"""
import os
os.environ["H9_SUITE"] = "d2"
from hunt.common import *
import sys, itertools

vm_strs = {'vm1': 'only CentOS\n', 'vm2': 'only Win10\n', 'vm3': 'only Ubuntu\n'}
PRODUCERS = {
    "deep2": (("prepA", ["sa1", "sa2"]), ("tutorial_gui", ["guisetup.noop", "guisetup.clicked"])),
    "deep3": (("prepA", ["sa1", "sa2"]), ("tutorial_get", ["getsetup.guisetup.noop", "getsetup.guisetup.clicked"])),
    "deep4": (("mid", ["smid.sa1", "smid.sa2"]), ("tutorial_gui", ["guisetup.noop", "guisetup.clicked"])),
}
bad = []
for test, ((p1, states1), (p2, states2)) in PRODUCERS.items():
    try:
        graph = TestGraph.parse_object_trees(None, f"only leaves..{test}\n", object_restrs=vm_strs, params={"nets": "net1"})
    except Exception as error:
        bad.append(f"{test}: parse failed: {error!r}"[:300])
        continue
    nodes = [n for n in graph.nodes if f".{test}." in "." + n.params["name"] and not n.is_flat()]
    runnable = [n for n in nodes if len(n.cloned_nodes) == 0]
    print(f"{test}: {len(nodes)} composite nodes, {len(runnable)} runnable")
    combos = []
    for n in runnable:
        pa = [s for s in n.setup_nodes if f".{p1}." in s.params["name"] + "."]
        pb = [s for s in n.setup_nodes if f".{p2}." in s.params["name"] + "."]
        sa, sb = n.params.get("get_state_images_image1_vm1"), n.params.get("get_state_images_image1_vm2")
        print("    runnable", short(n).split(".vms")[0], "get_states", (sa, sb), "<=", [short(s).split(".vms")[0] for s in list(pa) + list(pb)])
        if len(pa) != 1 or len(pb) != 1:
            bad.append(f"{test}: {short(n).split('.vms')[0]} has {len(pa)} {p1} and {len(pb)} {p2} parents")
            continue
        want_a = pa[0].params.object_params("vm1").object_params("image1").object_params("images").get("set_state")
        want_b = pb[0].params.object_params("vm2").object_params("image1").object_params("images").get("set_state")
        if (sa, sb) != (want_a, want_b):
            bad.append(f"{test}: {short(n).split('.vms')[0]} gets states {(sa, sb)} but its parents provide {(want_a, want_b)}")
        combos.append((want_a, want_b))
    want = sorted(itertools.product(states1, states2))
    if sorted(combos) != want:
        bad.append(f"{test}: runnable clones cover producer combinations {sorted(combos)} instead of {want}")
    names = [n.params["name"] for n in graph.nodes]
    if len(names) != len(set(names)):
        bad.append(f"{test}: duplicate node names in the graph")
    bad += [f"{test}: {e}" for e in check_graph(graph, verbose=False)]
for b in bad:
    print("VIOLATION:", b[:500])
sys.exit(1 if bad else 0)
