"""Compare eager vs lazy parsing for a selection; args: restriction vm_strs params"""
from hunt.common import *
import time, sys
restr = sys.argv[1].replace("\\n", "\n")
vm_strs = eval(sys.argv[2])
params = eval(sys.argv[3])
quiet = len(sys.argv) > 4
t=time.time()
g = TestGraph.parse_object_trees(None, restr, object_restrs=vm_strs, params=dict(params))
print("eager parse time", time.time()-t, "nodes", len(g.nodes))
if not quiet: sdump(g)
e1 = check_graph(g)
for p in patches(): p.start()
AnyRun.runs = []
runner = make_runner(dict(params), vm_strs)
t=time.time()
lg = lazy_graph(restr, vm_strs, dict(params))
err = None
try:
    traverse(lg, runner, dict(params, test_timeout=100), timeout=600)
except BaseException as e:
    import traceback; traceback.print_exc()
    err = e
print("lazy time", time.time()-t, "nodes", len(lg.nodes), "runs", len(AnyRun.runs))
e2 = check_graph(lg)
en = {n.setless_form for n in g.nodes if not n.is_flat()}
ln = {n.setless_form for n in lg.nodes if not n.is_flat()}
bad = bool(e1 or e2 or err)
for x in sorted(en - ln): print("ONLY EAGER node:", x); bad = True
for x in sorted(ln - en): print("ONLY LAZY node:", x); bad = True
ee, le = edges(g), edges(lg)
import re
def sl(x):
    for m in sorted(param.all_restrictions(), key=len, reverse=True):
        if x.startswith(m + "."):
            return x[len(m)+1:]
    return x
ee = {(sl(a), sl(b), c) for a, b, c in ee}; le = {(sl(a), sl(b), c) for a, b, c in le}
def netless(x): return re.sub(r"nets\.\w+\.net\d+", "NET", x)
for x in sorted(ee - le): print("ONLY EAGER edge:", x); bad = True
for x in sorted(le - ee): print("ONLY LAZY edge:", x); bad = True
# every runnable eager node was run at least once
ran = {netless(sl(r[1])) for r in AnyRun.runs}
for n in g.nodes:
    if n.is_flat() or n.cloned_nodes or n.is_shared_root(): continue
    if netless(n.setless_form) not in ran and not n.is_object_root():
        # setup nodes might be skipped only if states available (none here)
        print("NOT RUN:", short(n)); bad = True
print("RESULT", "BAD" if bad else "OK")
