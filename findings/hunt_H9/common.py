import os, sys
sys.path.insert(0, os.getcwd())
_suite = os.environ.get("H9_SUITE", "")
os.environ["HOME"] = os.path.join(os.getcwd(), "hunt", "home" + ("_" + _suite if _suite else ""))
os.makedirs(os.environ["HOME"], exist_ok=True)
import warnings
warnings.filterwarnings("ignore")
import logging
logging.disable(logging.CRITICAL)
import avocado_i2n
assert avocado_i2n.__file__.startswith(os.getcwd() + os.sep), avocado_i2n.__file__
if _suite:
    from avocado.core.settings import settings as _settings
    import avocado_i2n.params_parser as _pp
    _settings.update_option("i2n.common.suite_path", os.path.join(os.getcwd(), "hunt", "suites", _suite))
    assert _pp.custom_configs_dir().startswith(os.path.join(os.getcwd(), "hunt", "suites", _suite))
sys.path.insert(0, os.path.join(os.getcwd(), "selftests", "isolation"))
import unittest.mock as mock
import asyncio
from avocado_i2n import params_parser as param
from avocado_i2n.cartgraph import *
from avocado_i2n.plugins.runner import TestRunner
from avocado_i2n.plugins.loader import TestLoader
from unittest_utils import DummyTestRun, DummyStateControl

DEF_VM_STRS = {"vm1": "only CentOS\n", "vm2": "only Win10\n", "vm3": "only Ubuntu\n"}

def check_graph(graph, verbose=True):
    """Return list of well-formedness violations (C06)."""
    errs = []
    nodes = list(graph.nodes)
    # unique identity
    seen = {}
    for n in nodes:
        key = (n.params["name"])
        seen.setdefault(key, []).append(n)
    for k, v in seen.items():
        if len(v) > 1:
            errs.append(f"duplicate node name {k}: {[x.prefix for x in v]}")
    ids = {}
    for n in nodes:
        ids.setdefault(id(n), 0)
        ids[id(n)] += 1
    for n in nodes:
        if ids[id(n)] > 1:
            errs.append(f"node registered twice {n.id}")
            ids[id(n)] = 0
    # edges both ends
    for n in nodes:
        for s, objs in n.setup_nodes.items():
            if n not in s.cleanup_nodes:
                errs.append(f"edge {n.id} -> setup {s.id} not recorded on parent")
            elif s.cleanup_nodes[n] != objs:
                errs.append(f"edge objs differ {n.id} -> {s.id}")
            if s not in nodes:
                errs.append(f"setup {s.id} of {n.id} not in graph")
        for c in n.cleanup_nodes:
            if n not in c.setup_nodes:
                errs.append(f"edge {n.id} -> cleanup {c.id} not recorded on child")
            if c not in nodes:
                errs.append(f"cleanup {c.id} of {n.id} not in graph")
    # roots
    roots = [n for n in nodes if n.is_shared_root()]
    if len(roots) != 1:
        errs.append(f"{len(roots)} shared roots")
    else:
        reach = set(); todo = [roots[0]]
        while todo:
            x = todo.pop()
            if id(x) in reach: continue
            reach.add(id(x)); todo.extend(x.cleanup_nodes)
        for n in nodes:
            if id(n) not in reach:
                errs.append(f"unreachable {n.id}")
    # acyclic
    color = {}
    def dfs(n, stack):
        color[id(n)] = 1
        for c in n.cleanup_nodes:
            if color.get(id(c)) == 1:
                errs.append(f"cycle via {n.id} -> {c.id}")
            elif color.get(id(c)) is None:
                dfs(c, stack)
        color[id(n)] = 2
    for n in nodes:
        if color.get(id(n)) is None:
            dfs(n, [])
    # dependencies per object
    for n in nodes:
        if n.is_flat() or n.is_shared_root():
            continue
        if len(n.cloned_nodes) > 0:
            continue
        for o in n.objects:
            op = o.object_typed_params(n.params)
            get = op.get("get")
            gs = op.get("get_state")
            parents = [s for s, objs in n.setup_nodes.items() if o in objs and not s.is_flat() and not s.is_shared_root()]
            if get:
                if len(parents) != 1:
                    errs.append(f"{n.id} object {o.long_suffix} get={get} get_state={gs} has {len(parents)} parents {[p.id for p in parents]}")
                else:
                    p = parents[0]
                    if n.objects[0].suffix not in p.params["name"]:
                        errs.append(f"{n.id} parent {p.id} of other worker")
                    ps = o.object_typed_params(p.params).get("set_state")
                    if gs not in ("0root",) and ps != gs:
                        errs.append(f"{n.id} object {o.long_suffix} get_state={gs} but parent {p.id} sets {ps}")
                    if o not in p.objects and o.long_suffix not in [x.long_suffix for x in p.objects]:
                        errs.append(f"{n.id} parent {p.id} lacks object {o.long_suffix}")
                    if len(p.cloned_nodes) > 0:
                        errs.append(f"{n.id} depends on clone source {p.id}")
            else:
                if parents:
                    errs.append(f"{n.id} object {o.long_suffix} has no get but parents {[p.id for p in parents]}")
    if verbose:
        for e in errs:
            print("  VIOLATION:", e)
    return errs

def dump(graph):
    for n in graph.nodes:
        print(n.id, "|", "setup:", [s.id for s in n.setup_nodes], "| clones:", [c.id for c in n.cloned_nodes], "| bridged:", len(n.bridged_nodes))

import re as _re
def short(n):
    """Compact unique-ish name of a node."""
    name = n.params["name"]
    name = _re.sub(r"\.(default_bios|virtio_rng|no_virtio_rng|rng_random|no_9p_export|smallpages|no_pci_assignable|qcow2|virtio_blk|smp2|virtio_net|i440fx|q35|Linux|Windows|x86_64|8\.0|14\.04\.3-server|qemu_kvm_\w+|aio_threads|default_install|extra_cdrom_ks|in_cdrom_ks|cdrom|nets\.localhost|nets\.cluster\d)", "", name)
    return n.prefix + "-" + name

def sdump(graph):
    for n in graph.nodes:
        print(short(n), "<=", [short(s) for s in n.setup_nodes], ("CLONES " + str([short(c) for c in n.cloned_nodes])) if n.cloned_nodes else "", "B%d" % len(n.bridged_nodes))

def edges(graph):
    """Set of (child name, parent name, objs) ignoring flat nodes."""
    res = set()
    for n in graph.nodes:
        if n.is_flat() or len(n.cloned_nodes) > 0:
            continue
        for s, objs in n.setup_nodes.items():
            if s.is_flat():
                continue
            res.add((n.params["name"], s.params["name"], tuple(sorted(o.long_suffix for o in objs))))
    return res

class AnyRun:
    """Mock of run_test_task that passes everything and records runs."""
    runs = []
    status_for = staticmethod(lambda node: "PASS")
    @staticmethod
    async def mock_run_test_task(self, node):
        if not hasattr(self.job, "result"):
            self.job.result = mock.MagicMock(); self.job.result.tests = []
        assert node.started_worker is not None
        await asyncio.sleep(0.01)
        uid = node.id_test.uid; name = node.params["name"]
        status = AnyRun.status_for(node)
        AnyRun.runs.append((uid, name, status, node.started_worker.id))
        if status is None:
            return
        tid = type("Mock", (), {"uid": uid, "name": name})()
        self.job.result.tests.append({"name": tid, "status": status, "time_elapsed": 1, "logdir": "."})

def make_runner(param_dict=None, vm_strs=None):
    job = mock.MagicMock()
    job.logdir = "."; job.timeout = 6000
    job.result = mock.MagicMock(); job.result.tests = []
    job.config = {"param_dict": param_dict or {}, "vm_strs": vm_strs or DEF_VM_STRS}
    runner = TestRunner(); runner.job = job; runner.status_server = job
    return runner

def patches():
    return [mock.patch('avocado_i2n.cartgraph.worker.remote.wait_for_login', mock.MagicMock()),
            mock.patch('avocado_i2n.cartgraph.node.door', DummyStateControl),
            mock.patch('avocado_i2n.plugins.runner.SpawnerDispatcher', mock.MagicMock()),
            mock.patch.object(TestRunner, 'run_test_task', AnyRun.mock_run_test_task)]

def lazy_graph(restriction, vm_strs, params):
    graph = TestGraph()
    graph.restrs.update(vm_strs)
    loaded = TestGraph.parse_flat_nodes(restriction)
    for node in loaded:
        node.update_restrs(vm_strs)
    graph.new_nodes(loaded)
    graph.parse_shared_root_from_object_roots()
    graph.new_workers(TestGraph.parse_workers(params))
    return graph

def traverse(graph, runner, params=None, timeout=None):
    params = params or {"test_timeout": 100}
    loop = asyncio.get_event_loop()
    workers = sorted(list(graph.workers.values()), key=lambda x: x.params["name"])
    graph.runner = runner
    to_traverse = [graph.traverse_object_trees(s, params) for s in workers]
    loop.run_until_complete(asyncio.wait_for(asyncio.gather(*to_traverse), timeout))

from aexpect.exceptions import ShellCmdError
class PoolDoor:
    """State control mock: a pool of available states (by state name); records actions."""
    available = set()
    action = "check"
    params = {}
    log = []
    DUMP_CONTROL_DIR = "/tmp"
    @staticmethod
    def set_subcontrol_parameter(_, __, do):
        PoolDoor.action = do
    @staticmethod
    def set_subcontrol_parameter_dict(_, __, node_params):
        PoolDoor.params = node_params
    @staticmethod
    def run_subcontrol(session, path):
        p = PoolDoor.params
        if PoolDoor.action == "check":
            states = [v for k, v in p.items() if k.startswith("check_state_")]
            PoolDoor.log.append(("check", tuple(states)))
            if not all(s in PoolDoor.available for s in states):
                raise ShellCmdError(1, "command", "AssertionError")
        else:
            PoolDoor.log.append((PoolDoor.action, p.get("name")))

def patches():
    return [mock.patch('avocado_i2n.cartgraph.worker.remote.wait_for_login', mock.MagicMock()),
            mock.patch('avocado_i2n.cartgraph.node.door', PoolDoor),
            mock.patch('avocado_i2n.plugins.runner.SpawnerDispatcher', mock.MagicMock()),
            mock.patch.object(TestRunner, 'run_test_task', AnyRun.mock_run_test_task)]
