"""
Demo: equivalent tests of different workers do not all share their visit bookkeeping when a selection contains the same
test through several test sets (only tutorial1 -> all/leaves/normal/minimal) and the graph is parsed up front for two workers.

Run from the worktree root: /venv/bin/python hunt/register_split_demo.py   (exit 1 = violation present)
"""
import os, sys
sys.path.insert(0, os.getcwd())
sys.path.insert(1, os.path.join(os.getcwd(), "selftests", "isolation"))
import avocado_i2n
assert avocado_i2n.__file__.startswith(os.getcwd() + os.sep), avocado_i2n.__file__
import logging
logging.disable(logging.CRITICAL)
from avocado_i2n.cartgraph import TestGraph

restriction = sys.argv[1] if len(sys.argv) > 1 else "tutorial1"
graph = TestGraph.parse_object_trees(
    None, "only " + restriction + "\n", "", {"vm1": "only CentOS\n"}, {"nets": "net1 net2"}, with_shared_root=False,
)
bad = 0
REGS = ("_picked_by_setup_nodes", "_dropped_setup_nodes", "_picked_by_cleanup_nodes", "_dropped_cleanup_nodes")
nodes = [n for n in graph.nodes if "tutorial1" in n.params["name"] and not n.is_flat()]
print(len(nodes), "composite tutorial1 nodes")
for n in nodes:
    for m in n.bridged_nodes:
        if n not in m.bridged_nodes:
            print("asymmetric bridge", n, m); bad += 1
        for r in REGS:
            if getattr(n, r) is not getattr(m, r):
                bad += 1
groups = {}
for n in nodes:
    groups.setdefault(id(n._picked_by_setup_nodes), []).append(n.params["shortname"] + "@" + n.params["nets"])
for g in groups.values():
    print("share one register:", g)
# behavioural consequence: a visit registered through one node is not seen through an equivalent one
a = nodes[0]
class W:  # minimal worker stand-in as in the unit tests of the registers
    id = "net1"
for m in a.bridged_nodes:
    if m._dropped_setup_nodes is not a._dropped_setup_nodes:
        print("visit bookkeeping of", a.params["shortname"], a.params["nets"], "is invisible to its equivalent", m.params["shortname"], m.params["nets"])
        break
print("register identity mismatches among bridged pairs:", bad)
sys.exit(1 if bad else 0)
