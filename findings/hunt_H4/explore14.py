from hunt.lazy import *
import traceback
restr = "only normal\nonly tutorial1\n"
vms = {"vm1": "only Fedora\n", "vm2": "only Win7\n", "vm3": "only Ubuntu\n"}
for nets in ["net5", "net5 net1"]:
    try:
        g = eager_graph(restr, vms, {"nets": nets})
        print(nets, "eager nodes:", [(n.prefix, n.params["shortname"][:40], n.params.get("nets")) for n in g.nodes if "tutorial1" in n.params["name"]])
    except Exception as e:
        traceback.print_exc(limit=-3)
        print(nets, "eager EXC", type(e).__name__, str(e)[:200].replace("\n", " | "))
l = lazy_graph(restr, vms, {"nets": "net5"})
print("lazy nodes:", [(n.prefix, n.params["shortname"][:40], n.params.get("nets")) for n in l.nodes if "tutorial1" in n.params["name"]])
print(l.runner.ran)
