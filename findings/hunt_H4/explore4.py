from hunt.lazy import *
from hunt.check import check
import sys, time
restr = "only leaves\nonly tutorial_gui..client_noop,tutorial_get..explicit_noop\n"
vms = {"vm1": "only CentOS,Fedora\n", "vm2": "only Win10\n", "vm3": "only Ubuntu\n"}
params = {"nets": "net1 net2"}
t = time.time()
l = lazy_graph(restr, vms, params)
print("lazy", len(l.nodes), time.time() - t)
check(l)
e = eager_graph(restr, vms, params)
print("eager", len(e.nodes))
check(e)
for d in diff(e, l): print(d)
