from hunt.lazy import *
import traceback
restr = "only nonleaves\nonly unattended_install.cdrom.extra_cdrom_ks\n"
vms = {"vm1": "only CentOS\n", "vm2": "only Win10\n", "vm3": "only Ubuntu\n"}
for mode in ("lazy", "eager"):
    try:
        if mode == "lazy":
            g = lazy_graph(restr, vms, {"nets": "net1"})
        else:
            g = eager_graph(restr, vms, {"nets": "net1"})
        for n in g.nodes: print(mode, n.prefix, n.params["name"][:90], n.params.get("object_root", "")[:40], [p.prefix for p in n.setup_nodes])
        if mode == "lazy": print(g.runner.ran)
    except Exception:
        traceback.print_exc()
