from hunt.common import *
for n in TestGraph.parse_flat_nodes("leaves"):
    print(n.prefix, n.params["name"], "|", n.setless_form, "|", n.restrs)
