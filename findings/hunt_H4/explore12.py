from hunt.common import *
import traceback
try:
    g = TestGraph.parse_object_trees(restriction="only leaves\nonly tutorial_get..implicit_both\n", params={"nets": "net1", "only_vm1": "CentOS", "only_vm2": "Win10", "only_vm3": "Ubuntu"})
    print("parsed", len(g.nodes))
except Exception as e:
    traceback.print_exc()
