"""
Demo: the node name index (PrefixTree) keeps a single node per full name, so when the selection
contains the "noop" test (only=all, or only=all..noop) its flat node has exactly the same name as
the shared root ("all.internal.stateless.noop") and is silently dropped from the index: lookups by
name no longer return every node whose name matches, and depend on the insertion order.

Run from the worktree root: /venv/bin/python hunt/same_name_index_demo.py
Exit 1 = violation present, 0 = not present.
"""
import os, sys
sys.path.insert(0, os.getcwd())
import avocado_i2n
assert avocado_i2n.__file__.startswith(os.getcwd() + os.sep), avocado_i2n.__file__
import logging
logging.disable(logging.CRITICAL)
from avocado_i2n.cartgraph import TestGraph, TestNode, PrefixTree

bad = False

# 1) pure index level: two nodes with the same full name
tree = PrefixTree()
node1, node2 = TestNode("1", None), TestNode("21", None)
node1._params_cache = {"name": "all.internal.stateless.noop"}
node2._params_cache = {"name": "all.internal.stateless.noop"}
tree.insert(node1)
tree.insert(node2)
found = tree.get("internal.stateless.noop")
print("index level: inserted 2 nodes named all.internal.stateless.noop, lookup returns", len(found))
bad |= len(found) != 2

# 2) the way the run plugin builds the graph for "only=all..noop" (also happens for "only=all")
graph = TestGraph()
flat_nodes = TestGraph.parse_flat_nodes("all..noop", {})
graph.new_nodes(flat_nodes)
root = graph.parse_shared_root_from_object_roots({})
names = [(n.id, "shared root" if n.is_shared_root() else "selected test") for n in graph.nodes]
print("graph nodes:", names)
found = graph.get_nodes_by_name("all.internal.stateless.noop")
print("lookup by the full name returns", len(found), "of", len(graph.nodes), "nodes:",
      ["shared root" if n.is_shared_root() else "selected test" for n in found])
for node in graph.nodes:
    if node not in found:
        print("VIOLATION: node", node.id, "(selected test)" if not node.is_shared_root() else "(root)", "is in the graph but not in its index")
        bad = True
sys.exit(1 if bad else 0)
