from hunt.lazy import *
from hunt.check import check
import sys, time, re
restr = "only leaves\nonly tutorial_gui..client_noop,tutorial_get..explicit_noop\n"
vms = {"vm1": "only CentOS,Fedora\n", "vm2": "only Win7\n", "vm3": "only Ubuntu\n"}
params = {"nets": "cluster2.net9 net1"}
t = time.time()
l = lazy_graph(restr, vms, params)
print("lazy", len(l.nodes), time.time() - t)
check(l)
for w, n in l.runner.ran: print("RAN", w, re.sub(r"\.vms\..*", "", n), "Fedora" if "Fedora" in n else "CentOS")
e = eager_graph(restr, vms, params)
print("eager", len(e.nodes))
check(e)
for d in diff(e, l): print(d)
