from hunt.common import *
for nets in ["net6", "net6 cluster1.net6 cluster2.net6", "cluster1.net6 net1"]:
    ws = TestGraph.parse_workers({"nets": nets})
    print(nets, "->", [(w.id, w.net.suffix, w.net.long_suffix, w.swarm_id) for w in ws])
    print("   swarms", {k: [w.id for w in v.workers] for k, v in TestSwarm.run_swarms.items()})
print(param.all_objects("nets"))
