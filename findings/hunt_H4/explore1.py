from hunt.common import *
import time
t=time.time()
g = TestGraph.parse_object_trees(None, "only normal\nonly tutorial1\n", "", {"vm1": "only CentOS\n", "vm2": "only Win10\n", "vm3": "only Ubuntu\n"}, {"nets": "net1 net2"})
print(time.time()-t)
dump(g)
for n in g.nodes:
    print(n.prefix, n.bridged_form, [b.params["name"][-30:] for b in n.bridged_nodes])
