from hunt.lazy import *
import copy
restr = "only leaves\nonly tutorial_get..implicit_both\n"
vms = {"vm1": "only CentOS\n", "vm2": "", "vm3": "only Ubuntu\n"}
params = {"nets": "net3 net1", "shared_pool": "/x", "test_timeout": 100}
v0, p0 = copy.deepcopy(vms), copy.deepcopy(params)
def full(g):
    return [(n.prefix, n.params["name"], sorted((p.prefix, p.params["name"]) for p in n.setup_nodes), sorted(b.params["name"] for b in n.bridged_nodes)) for n in g.nodes]
g1 = TestGraph.parse_object_trees(None, restr, "", vms, params)
print(vms == v0, params == p0)
g2 = TestGraph.parse_object_trees(None, restr, "", vms, params)
print(vms == v0, params == p0)
f1, f2 = full(g1), full(g2)
print(len(f1), len(f2), f1 == f2)
if f1 != f2:
    for a, b in zip(f1, f2):
        if a != b: print("A", a, "\nB", b); break
