from hunt.lazy import *
from hunt.check import check
import traceback
restr = "only all..noop\n"
vms = {"vm1": "only CentOS\n", "vm2": "only Win10\n", "vm3": "only Ubuntu\n"}
for mode in ("eager", "lazy"):
    try:
        g = eager_graph(restr, vms, {"nets": "net1"}) if mode == "eager" else lazy_graph(restr, vms, {"nets": "net1"}, timeout=60)
        for n in g.nodes: print(mode, n.id[:100], [p.id[:40] for p in n.setup_nodes])
        check(g)
        if mode == "lazy": print(g.runner.ran)
    except Exception:
        traceback.print_exc(limit=-3)
