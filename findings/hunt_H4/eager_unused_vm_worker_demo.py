"""
Demo: eager parsing (parse_object_trees, used e.g. by the "list" tool) drops ALL tests of a worker as
soon as ANY vm has no variant left on that worker - even a vm none of the selected tests uses - while
lazy parsing (the run plugin) correctly parses and runs the tests that only need the other vms.

cluster2.net9 is shipped with "no_vm2 = Win10" and the shipped default vm restriction is only_vm2=Win10,
so with default restrictions vm2 has no variant on that worker; tutorial1 only uses vm1 (CentOS).

Run from the worktree root: /venv/bin/python hunt/eager_unused_vm_worker_demo.py
Exit 1 = violation present, 0 = not present.
"""
import os, sys, re
sys.path.insert(0, os.getcwd())
import avocado_i2n
assert avocado_i2n.__file__.startswith(os.getcwd() + os.sep), avocado_i2n.__file__
from hunt.lazy import lazy_graph, eager_graph
from avocado_i2n import params_parser as param

# command line: only=tutorial1 nets=cluster2.net9,net1   (default only_vm1=CentOS only_vm2=Win10 only_vm3=Ubuntu)
restr = "only normal\nonly tutorial1\n"
vm_strs = {"vm1": "only CentOS\n", "vm2": "only Win10\n", "vm3": "only Ubuntu\n"}


def tutorial1_workers(graph):
    return sorted(n.params["nets"] for n in graph.get_nodes_by_name("quicktest.tutorial1") if not n.is_flat())

bad = False
lazy = lazy_graph(restr, vm_strs, {"nets": "cluster2.net9"})
print("lazy  nets=cluster2.net9      : tutorial1 parsed for", tutorial1_workers(lazy),
      "and run by", sorted({w for w, n in lazy.runner.ran if "tutorial1" in n}))
try:
    eager = eager_graph(restr, vm_strs, {"nets": "cluster2.net9"})
    print("eager nets=cluster2.net9      : tutorial1 parsed for", tutorial1_workers(eager))
except param.EmptyCartesianProduct as error:
    print("eager nets=cluster2.net9      : EmptyCartesianProduct (no tests at all)")
    bad = True
eager = eager_graph(restr, vm_strs, {"nets": "cluster2.net9 net1"})
print("eager nets=cluster2.net9 net1 : tutorial1 parsed for", tutorial1_workers(eager))
if "cluster2.net9" not in tutorial1_workers(eager):
    bad = True
if bad:
    print("VIOLATION: eager parsing excludes tutorial1 (vm1 only) from cluster2.net9 because the unused vm2 has no variant there")
    sys.exit(1)
print("OK")
