from hunt.common import *
from hunt.check import check, sig
import time, sys
t=time.time()
g = TestGraph.parse_object_trees(None, "only leaves\n", "", {"vm1": "only CentOS\n", "vm2": "only Win10\n", "vm3": "only Ubuntu\n"}, {"nets": "net1"})
print(time.time()-t, len(g.nodes))
errs = check(g)
print(len(errs))
