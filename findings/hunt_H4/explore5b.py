from hunt.lazy import *
import sys, time, re
restr = "only leaves\nonly tutorial_gui..client_noop,tutorial_get..explicit_noop\n"
vms = {"vm1": "only CentOS,Fedora\n", "vm2": "only Win7\n", "vm3": "only Ubuntu\n"}
params = {"nets": "cluster2.net9 net1"}
l = lazy_graph(restr, vms, params)
def short(n): return n.prefix + " " + re.sub(r"\.vms\..*", "", n.params["name"]) + " " + ("Fedora" if "Fedora" in n.params["name"] else "CentOS" if "CentOS" in n.params["name"] else "") + " " + (n.params.get("nets") or "FLAT")
for n in l.nodes:
    print(short(n), "<-", [short(p) for p in n.setup_nodes], "incompat", n.incompatible_workers)
