"""
Demo: lazy expansion silently drops a selected test variant when the vm restriction
is multi-variant (only_vm1=CentOS,Fedora) and one of the variants of the flat node was
already parsed as a dependency of another test.

Run from the worktree root: /venv/bin/python hunt/unique_child_multivariant_demo.py
Exit 1 = violation present, 0 = not present.
"""
import os, sys, re
sys.path.insert(0, os.getcwd())
import avocado_i2n
assert avocado_i2n.__file__.startswith(os.getcwd() + os.sep), avocado_i2n.__file__
from hunt.lazy import lazy_graph, eager_graph

# what the command line produces for:
#   nets=cluster2.net9,net1 only_vm1=CentOS,Fedora only_vm2=Win7 only=leaves only=tutorial_gui..client_noop,tutorial_get..explicit_noop
restr = "only leaves\nonly tutorial_gui..client_noop,tutorial_get..explicit_noop\n"
vm_strs = {"vm1": "only CentOS,Fedora\n", "vm2": "only Win7\n", "vm3": "only Ubuntu\n"}
params = {"nets": "cluster2.net9 net1"}


def variants(graph):
    """Worker-invariant identities of all composite tutorial_gui.client_noop tests."""
    found = set()
    for node in graph.get_nodes_by_name("tutorial_gui.client_noop"):
        if node.is_flat():
            continue
        os_variant = "Fedora" if ".Fedora." in node.params["name"] else "CentOS"
        found.add(os_variant)
    return found

lazy = lazy_graph(restr, vm_strs, params)
eager = eager_graph(restr, vm_strs, params)
lazy_variants, eager_variants = variants(lazy), variants(eager)
print("eager parse, vm1 variants of tutorial_gui.client_noop over all workers:", sorted(eager_variants))
print("lazy  parse, vm1 variants of tutorial_gui.client_noop over all workers:", sorted(lazy_variants))
flat = [n for n in lazy.get_nodes_by_name("tutorial_gui.client_noop") if n.is_flat()][0]
for child in flat.cleanup_nodes:
    print("  lazy child of the flat node:", child.prefix, re.sub(r"\.default_bios.*?(\.nets\.\w+\.net\d).*", r"..\1", child.params["name"]))
ran = {re.sub(r"\.vms\..*", "", n) + (" Fedora" if ".Fedora." in n else " CentOS") for _, n in lazy.runner.ran if "tutorial_gui" in n}
print("lazy run of tutorial_gui tests:", sorted(ran))
if lazy_variants != eager_variants:
    print("VIOLATION: variants", sorted(eager_variants - lazy_variants), "selected and compatible with net1 were never expanded by any worker")
    sys.exit(1)
print("OK")
sys.exit(0)
