from hunt.lazy import *
g = eager_graph("only leaves\nonly tutorial3..no_remote\n", {"vm1": "only CentOS\n", "vm2": "only Win10\n", "vm3": "only Ubuntu\n"}, {"nets": "net1"})
for o in g.objects:
    print(o.key, o.long_suffix, "|", o.params["name"], "|", o.restrs)
for n in g.nodes:
    print(n.prefix, n.params["name"])
    print("    objs", [o.id[:40] for o in n.objects])
