"""
Demo: an install ("original") test that is selected directly (e.g. by only=all or only=nonleaves)
instead of being reached as a dependency gets the id of its *net* as object root, which the
traversal cannot interpret as the object to create: the whole traversal aborts with a ValueError.

Run from the worktree root: /venv/bin/python hunt/install_leaf_root_demo.py
Exit 1 = violation present, 0 = not present.
"""
import os, sys, re, traceback
sys.path.insert(0, os.getcwd())
import avocado_i2n
assert avocado_i2n.__file__.startswith(os.getcwd() + os.sep), avocado_i2n.__file__
from hunt.lazy import lazy_graph, eager_graph

# command line: only=nonleaves only=unattended_install.cdrom.extra_cdrom_ks nets=net1 (default vm restrictions)
restr = "only nonleaves\nonly unattended_install.cdrom.extra_cdrom_ks\n"
vm_strs = {"vm1": "only CentOS\n", "vm2": "only Win10\n", "vm3": "only Ubuntu\n"}
params = {"nets": "net1"}

bad = False
eager = eager_graph(restr, vm_strs, params)
for node in eager.nodes:
    if node.is_object_root():
        root_object = node.get_terminal_object()
        print("eager: object root of", node.params["shortname"], "is", node.params["object_root"][:30] + "...",
              "->", root_object.key if root_object else None)
        if root_object is None or root_object.key != "images":
            bad = True
try:
    lazy = lazy_graph(restr, vm_strs, params)
    print("lazy traversal ran:", [re.sub(r"\.vms\..*", "", n) for _, n in lazy.runner.ran])
except Exception as error:
    traceback.print_exc(limit=-2)
    print("lazy traversal aborted:", type(error).__name__, error)
    bad = True
if bad:
    print("VIOLATION: the object creation node does not identify the object (image) it creates")
    sys.exit(1)
print("OK")
