from hunt.common import *
from hunt.check import check, check_bridges, invariant_name
from hunt.lazy import eager_graph
import time, sys, traceback
STD = {"vm1": "only CentOS\n", "vm2": "only Win10\n", "vm3": "only Ubuntu\n"}
CFGS = {
 "A": ("only leaves\nonly tutorial_gui,tutorial_get,tutorial_finale,tutorial1\n", {"vm1": "", "vm2": "", "vm3": ""}, {"nets": "net2 net1"}),
 "B": ("only leaves\nonly tutorial_gui,tutorial_get..implicit_both,tutorial3..no_remote\n", {"vm1": "", "vm2": "", "vm3": "only Ubuntu\n"}, {"nets": "net5 net3 net1"}),
 "C": ("only leaves\nonly tutorial_gui,tutorial_get..implicit_both,tutorial3..no_remote\n", {"vm1": "", "vm2": "", "vm3": "only Ubuntu\n"}, {"nets": "net1 net3 net5"}),
}
def deps(g):
    out = {}
    for n in g.nodes:
        if n.is_flat(): continue
        key = (invariant_name(n), bool(n.cloned_nodes))
        val = sorted((invariant_name(p), tuple(sorted(o.long_suffix for o in objs))) for p, objs in n.setup_nodes.items() if not p.is_flat())
        out.setdefault(n.params["nets"], {}).setdefault(key, []).append(val)
    return out
which = sys.argv[1:] or list(CFGS)
for k in which:
    restr, vms, params = CFGS[k]
    t = time.time()
    e = eager_graph(restr, vms, params)
    print(k, "eager", len(e.nodes), "in", round(time.time()-t,1))
    errs = check(e) + check_bridges(e)
    d = deps(e)
    for w in d: print("   ", w, len(d[w]))
    ws = list(d)
    for a in ws:
        for b in ws:
            if a >= b: continue
            for key in set(d[a]) | set(d[b]):
                if key[1]: continue
                if key in d[a] and key in d[b] and d[a][key] != d[b][key]:
                    print("  WORKER-DEPS-DIFFER", a, b, key, d[a][key], d[b][key]); errs.append(1)
                if (key in d[a]) != (key in d[b]):
                    print("  ONLY-IN", a if key in d[a] else b, "not", b if key in d[a] else a, key[0][:60], "Fedora" if "Fedora" in key[0] else "CentOS" if "CentOS" in key[0] else "", "Win7" if "Win7" in key[0] else "Win10" if "Win10" in key[0] else "")
    print(k, "errors", len(errs))
    sys.stdout.flush()
