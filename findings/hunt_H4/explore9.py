from hunt.common import *
ns = TestGraph.parse_flat_nodes("nonleaves")
print(len(ns))
for n in ns: print(n.prefix, n.params["name"], n.params.get("vms"), n.restrs)
