from hunt.common import *
import itertools
class N:
    def __init__(self, name): self.params = {"name": name}
    def __repr__(self): return self.params["name"]
sets = ["s", "t"]
others = ["a", "b", "c"]
names = []
for s in sets:
    for k in range(0, 4):
        for perm in itertools.permutations(others, k):
            names.append(".".join((s,) + perm))
print(len(names))
alphabet = sets + others
queries = []
for k in range(1, 4):
    for q in itertools.product(alphabet, repeat=k):
        queries.append(".".join(q))
def contains(name, q):
    nv, qv = name.split("."), q.split(".")
    return any(nv[i:i+len(qv)] == qv for i in range(len(nv) - len(qv) + 1))
bad = 0
for k in (1, 2, 3):
    for combo in itertools.permutations(names, k):
        tree = PrefixTree()
        nodes = [N(n) for n in combo]
        for n in nodes: tree.insert(n)
        for q in queries:
            got = tree.get(q)
            exp = [n for n in nodes if contains(n.params["name"], q)]
            if sorted(map(id, got)) != sorted(map(id, exp)) or ((q in tree) != (len(exp) > 0)):
                bad += 1
                if bad < 10: print("MISMATCH", combo, q, got, exp, q in tree)
    print(k, "bad", bad)
