from hunt.lazy import *
import sys, time, re
restr = "only leaves\nonly tutorial1\n"
vms = {"vm1": "only CentOS\n", "vm2": "only Win10\n", "vm3": "only Ubuntu\n"}
nets = " ".join(param.all_suffixes_by_restriction("only net6\n"))
print("nets:", nets)
params = {"nets": nets}
l = lazy_graph(restr, vms, params, sleep=0.2)
def short(n): return n.prefix + " " + re.sub(r"\.vms\..*", "", n.params["name"]) + " " + (n.params.get("nets") or "FLAT")
for n in l.nodes:
    print(short(n), "<-", [short(p) for p in n.setup_nodes])
for w, n in l.runner.ran: print("RAN by", w, ":", re.sub(r"\.vms\..*nets", " nets", n))
