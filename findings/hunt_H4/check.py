"""Generic well-formedness checker for parsed graphs."""
from hunt.common import *
import re

def sig(graph):
    """Canonical signature: set of (name, frozenset((parent name, objs)))"""
    s = {}
    for n in graph.nodes:
        key = (n.params["name"], bool(n.cloned_nodes))
        val = frozenset((p.params["name"], frozenset(o.long_suffix for o in objs)) for p, objs in n.setup_nodes.items())
        s.setdefault(key, []).append(val)
    return s

def check(graph, verbose=True):
    errs = []
    nodes = list(graph.nodes)
    # unique identity
    names = {}
    for n in nodes:
        names.setdefault(n.params["name"], []).append(n)
    for name, ns in names.items():
        if len(ns) > 1:
            errs.append(f"DUPNAME {name} x{len(ns)} prefixes {[x.prefix for x in ns]}")
    ids = {}
    for n in nodes:
        ids.setdefault(n.id, []).append(n)
    objs_seen = set()
    for n in nodes:
        if nodes.count(n) > 1 and id(n) not in objs_seen:
            objs_seen.add(id(n))
            errs.append(f"DUPOBJ {n.prefix} {n.params['name']} registered x{nodes.count(n)}")
    # edges symmetric and inside graph
    nodeset = set(nodes)
    for n in nodes:
        for p, objs in n.setup_nodes.items():
            if p not in nodeset:
                errs.append(f"PARENT-NOT-IN-GRAPH {n.params['name']} <- {p.params['name']}")
            if n not in p.cleanup_nodes or p.cleanup_nodes[n] != objs:
                errs.append(f"ASYM {n.params['name']} <- {p.params['name']}")
        for c, objs in n.cleanup_nodes.items():
            if c not in nodeset:
                errs.append(f"CHILD-NOT-IN-GRAPH {n.prefix} {n.params['name']} -> {c.prefix} {c.params['name']}")
            if n not in c.setup_nodes or c.setup_nodes[n] != objs:
                errs.append(f"ASYM2 {n.params['name']} -> {c.params['name']}")
    # roots
    roots = [n for n in nodes if n.is_shared_root()]
    if len(roots) != 1:
        errs.append(f"ROOTS {len(roots)}")
    else:
        seen = set(); stack = [roots[0]]
        while stack:
            x = stack.pop()
            if x in seen: continue
            seen.add(x); stack.extend(x.cleanup_nodes)
        for n in nodes:
            if n not in seen:
                errs.append(f"UNREACHABLE {n.prefix} {n.params['name']}")
    for n in nodes:
        if len(n.setup_nodes) == 0 and not n.is_shared_root():
            errs.append(f"NOPARENT {n.prefix} {n.params['name']}")
    # acyclic
    color = {}
    def dfs(x):
        stack = [(x, iter(x.cleanup_nodes))]
        color[x] = 1
        while stack:
            node, it = stack[-1]
            for c in it:
                if color.get(c, 0) == 1:
                    errs.append(f"CYCLE via {c.params['name']}")
                elif color.get(c, 0) == 0:
                    color[c] = 1
                    stack.append((c, iter(c.cleanup_nodes)))
                    break
            else:
                color[node] = 2
                stack.pop()
    for n in nodes:
        if color.get(n, 0) == 0:
            dfs(n)
    # per node deps
    for n in nodes:
        if n.is_flat():
            continue
        nets = [o for o in n.objects if o.key == "nets"]
        if len(nets) != 1:
            errs.append(f"NETS {n.params['name']} {nets}")
        if set(n.params.objects("vms")) != {o.suffix for o in n.objects if o.key == "vms"}:
            errs.append(f"VMS {n.params['name']}")
        if n.cloned_nodes:
            # sources of clones never runnable
            continue
        net = nets[0]
        for o in n.objects:
            op = o.object_typed_params(n.params)
            get = op.get("get"); gs = op.get("get_state")
            parents = [p for p, objs in n.setup_nodes.items() if o in objs and not p.is_flat()]
            flatparents = [p for p, objs in n.setup_nodes.items() if o in objs and p.is_flat()]
            if get:
                if len(parents) != 1:
                    errs.append(f"DEPCOUNT {n.prefix} {n.params['name']} obj {o.long_suffix} get={get} gs={gs} parents={[p.params['name'] for p in parents]}")
                for p in parents:
                    pp = o.object_typed_params(p.params)
                    if pp.get("set_state") != gs and gs != "0root":
                        errs.append(f"STATE {n.params['name']} obj {o.long_suffix} needs {gs} parent sets {pp.get('set_state')}")
                    if p.cloned_nodes:
                        errs.append(f"PARENT-IS-CLONE-SOURCE {n.params['name']} <- {p.params['name']}")
                    pnet = p.objects[0]
                    if pnet.long_suffix != net.long_suffix:
                        errs.append(f"WORKER {n.params['name']} <- {p.params['name']}")
                    # same object variant
                    pobjs = [x for x in p.objects if x.long_suffix == o.long_suffix]
                    if len(pobjs) != 1 or pobjs[0].id != o.id:
                        errs.append(f"OBJVARIANT {n.params['name']} <- {p.params['name']} for {o.id}")
            else:
                if parents:
                    errs.append(f"SPURIOUS {n.params['name']} obj {o.long_suffix} parents={[p.params['name'] for p in parents]}")
        for p, objs in n.setup_nodes.items():
            if p.is_flat():
                continue
            for o in objs:
                if o not in n.objects:
                    errs.append(f"FOREIGN-OBJ {n.params['name']} <- {p.params['name']} via {o.id}")
    # index consistency
    for n in nodes:
        got = graph.get_nodes_by_name(n.params["name"])
        if n not in got:
            errs.append(f"INDEX-MISS {n.prefix} {n.params['name']}")
    allidx = []
    for root in graph.nodes_index.variant_nodes.values():
        pass
    if verbose:
        for e in errs:
            print("  ERR", e)
    return errs


def invariant_name(n):
    suffix = n.params["_name_map_file"].get("nets.cfg", "")
    return n.setless_form.replace(suffix, "<NET>") if suffix else n.setless_form


def check_bridges(graph, verbose=True):
    errs = []
    groups = {}
    for n in graph.nodes:
        if n.is_flat():
            continue
        groups.setdefault(invariant_name(n), []).append(n)
    for name, ns in groups.items():
        nets = [n.params["nets"] for n in ns]
        if len(set(nets)) != len(nets):
            errs.append(f"DUP-PER-WORKER {name} {nets} {[x.prefix for x in ns]}")
        for a in ns:
            for b in ns:
                if a is b:
                    continue
                if b not in a.bridged_nodes:
                    errs.append(f"UNBRIDGED {a.prefix} {a.params['nets']} -/-> {b.prefix} {b.params['nets']} {name[:80]}")
                for reg in ["_picked_by_setup_nodes", "_picked_by_cleanup_nodes", "_dropped_setup_nodes", "_dropped_cleanup_nodes"]:
                    if getattr(a, reg) is not getattr(b, reg):
                        errs.append(f"UNSHARED-REG {reg} {a.prefix} {a.params['nets']} vs {b.prefix} {b.params['nets']} {name[:80]}")
        for a in ns:
            for b in a.bridged_nodes:
                if b not in ns:
                    errs.append(f"WRONG-BRIDGE {a.params['name']} ~ {b.params['name']}")
                if a not in b.bridged_nodes:
                    errs.append(f"ASYM-BRIDGE {a.params['name']} ~ {b.params['name']}")
            if len(set(a.bridged_nodes)) != len(a.bridged_nodes):
                errs.append(f"DUP-BRIDGE {a.params['name']}")
    if verbose:
        for e in errs:
            print("  BERR", e)
    return errs
