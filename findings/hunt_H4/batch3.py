from hunt.common import *
from hunt.check import check, check_bridges, invariant_name
from hunt.lazy import eager_graph, lazy_graph
import time, sys, traceback
STD = {"vm1": "only CentOS\n", "vm2": "only Win10\n", "vm3": "only Ubuntu\n"}
CFGS = {
 "A": ("only leaves\nonly tutorial_gui,tutorial_get,tutorial_finale\n", STD, {"nets": "net1 net2 net3"}),
 "B": ("only leaves\nonly tutorial1,tutorial_gui\n", {"vm1": "", "vm2": "", "vm3": "only Ubuntu\n"}, {"nets": "net3 net5 net4"}),
 "C": ("only leaves\nonly tutorial_get..implicit_both,tutorial_finale\n", {"vm1": "only CentOS\n", "vm2": "", "vm3": "only Ubuntu\n"}, {"nets": "net2 net1"}),
 "D": ("only leaves\nonly tutorial1,tutorial_gui\n", {"vm1": "only CentOS\n", "vm2": "only Win7\n", "vm3": "only Ubuntu\n"}, {"nets": "cluster2.net9 cluster1.net7 net1 cluster2.net6"}),
 "E": ("only leaves\nonly tutorial_finale,tutorial_get..implicit_both,tutorial_gui\n", STD, {"nets": "net1 net2"}),
 "F": ("only all\nonly tutorial1,customize,connect,tutorial3..no_remote\n", {"vm1": "only CentOS,Fedora\n", "vm2": "only Win10\n", "vm3": "only Ubuntu\n"}, {"nets": "net1 net2"}),
 "G": ("only leaves\nonly tutorial_finale\n", STD, {"nets": "net1 net2"}),
 "H": ("only normal\n", {"vm1": "only CentOS,Fedora\n", "vm2": "only Win10,Win7\n", "vm3": "only Ubuntu\n"}, {"nets": "net5 net3 net1"}),
}
def deps(g):
    out = {}
    for n in g.nodes:
        if n.is_flat(): continue
        key = (invariant_name(n), n.params["nets"], bool(n.cloned_nodes))
        val = sorted((invariant_name(p), tuple(sorted(o.long_suffix for o in objs))) for p, objs in n.setup_nodes.items() if not p.is_flat())
        out.setdefault(key, []).append(val)
    return out
which = sys.argv[1:] or list(CFGS)
for k in which:
    restr, vms, params = CFGS[k]
    t = time.time()
    try:
        e = eager_graph(restr, vms, params)
        l = lazy_graph(restr, vms, params)
    except Exception as ex:
        print(k, "EXC", type(ex).__name__, str(ex)[:300])
        traceback.print_exc()
        continue
    print(k, "eager", len(e.nodes), "lazy", len(l.nodes), "in", round(time.time()-t,1))
    errs = check(e) + check_bridges(e) + check(l) + check_bridges(l)
    de, dl = deps(e), deps(l)
    for key, vals in dl.items():
        if len(vals) > 1:
            print("  LAZY-DUP", key)
        if key not in de:
            print("  ONLY-LAZY", key); errs.append(1)
        elif de[key] != vals:
            print("  DEPS-DIFFER", key, "\n     eager", de[key], "\n     lazy ", vals); errs.append(1)
    inv_e = {(k0[0], k0[2]) for k0 in de}; inv_l = {(k0[0], k0[2]) for k0 in dl}
    for x in sorted(inv_e - inv_l):
        print("  NEVER-EXPANDED-LAZILY", x); errs.append(1)
    print(k, "errors", len(errs))
    sys.stdout.flush()
