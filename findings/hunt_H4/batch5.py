from hunt.common import *
from hunt.check import check, check_bridges, invariant_name
from hunt.lazy import eager_graph, lazy_graph
import time, sys, traceback
CFGS = {
 "A": ("only leaves\nonly tutorial3\n", {"vm1": "", "vm2": "only Win10\n", "vm3": ""}, {"nets": "net0"}),
 "B": ("only leaves\nonly tutorial_get\n", {"vm1": "", "vm2": "only Win7\n", "vm3": ""}, {"nets": "net1 net0"}),
 "C": ("only normal\nonly tutorial1,tutorial_gui\n", {"vm1": "no CentOS\n", "vm2": "no Win10\n", "vm3": ""}, {"nets": "net5 net2"}),
 "D": ("only leaves\nonly tutorial_finale,tutorial_gui..client_noop\n", {"vm1": "only CentOS,Fedora\n", "vm2": "only Win10,Win7\n", "vm3": "only Ubuntu,Kali\n"}, {"nets": "net1 net2"}),
}
def deps(g):
    out = {}
    for n in g.nodes:
        if n.is_flat() or n.cloned_nodes: continue
        key = (invariant_name(n), n.params["nets"])
        val = sorted((invariant_name(p), tuple(sorted(o.long_suffix for o in objs))) for p, objs in n.setup_nodes.items() if not p.is_flat())
        out.setdefault(key, []).append(val)
    return out
which = sys.argv[1:] or list(CFGS)
for k in which:
    restr, vms, params = CFGS[k]
    t = time.time()
    try:
        e = eager_graph(restr, vms, params)
        l = lazy_graph(restr, vms, params)
    except Exception as ex:
        print(k, "EXC", type(ex).__name__, str(ex)[:300])
        traceback.print_exc()
        continue
    print(k, "eager", len(e.nodes), "lazy", len(l.nodes), "in", round(time.time()-t,1))
    errs = check(e) + check_bridges(e) + check(l) + check_bridges(l)
    de, dl = deps(e), deps(l)
    for key, vals in dl.items():
        if len(vals) > 1:
            print("  LAZY-DUP", key)
        if key not in de:
            print("  ONLY-LAZY", key); errs.append(1)
        elif de[key] != vals:
            print("  DEPS-DIFFER", key, "\n     eager", de[key], "\n     lazy ", vals); errs.append(1)
    inv_e = {k0[0] for k0 in de}; inv_l = {k0[0] for k0 in dl}
    for x in sorted(inv_e - inv_l):
        print("  NEVER-EXPANDED-LAZILY", x[:150]); errs.append(1)
    print(k, "errors", len(errs))
    sys.stdout.flush()
