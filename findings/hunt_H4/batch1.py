from hunt.common import *
from hunt.check import check, sig
import time, sys, traceback
STD = {"vm1": "only CentOS\n", "vm2": "only Win10\n", "vm3": "only Ubuntu\n"}
CFGS = {
 "A": ("only leaves\nonly tutorial_gui,tutorial_get,tutorial_finale\n", STD, {"nets": "net1 net2"}),
 "B": ("only leaves\nonly tutorial_gui,tutorial_get\n", {"vm1": "only CentOS,Fedora\n", "vm2": "only Win10\n", "vm3": "only Ubuntu\n"}, {"nets": "net1"}),
 "C": ("only leaves\nonly tutorial_gui,tutorial_get,tutorial_finale\n", {"vm1": "only CentOS\n", "vm2": "", "vm3": "only Ubuntu\n"}, {"nets": "net1"}),
 "D": ("only leaves\nonly tutorial1,tutorial3..no_remote,tutorial_gui\n", {"vm1": "", "vm2": "", "vm3": ""}, {"nets": "net1"}),
 "E": ("only leaves\nonly tutorial1,tutorial_gui,tutorial_get\n", {"vm1": "", "vm2": "", "vm3": "only Ubuntu\n"}, {"nets": "net3 net5 net4"}),
 "F": ("only leaves\nonly tutorial1,tutorial_gui,tutorial_get\n", {"vm1": "", "vm2": "", "vm3": "only Ubuntu\n"}, {"nets": "net4 net5 net3"}),
 "G": ("only leaves\nonly tutorial_gui,tutorial_get,tutorial_finale\n", {"vm3": "only Ubuntu\n", "vm2": "only Win10\n", "vm1": "only CentOS\n"}, {"nets": "net2 net1"}),
}
which = sys.argv[1:] or list(CFGS)
for k in which:
    restr, vms, params = CFGS[k]
    t = time.time()
    try:
        g = TestGraph.parse_object_trees(None, restr, "", dict(vms), dict(params))
    except Exception as e:
        print(k, "EXC", type(e).__name__, str(e)[:300])
        traceback.print_exc()
        continue
    print(k, "parsed", len(g.nodes), "nodes in", round(time.time()-t,1))
    errs = check(g)
    print(k, "errors", len(errs))
    sys.stdout.flush()
