import os, sys
sys.path.insert(0, os.getcwd())
sys.path.insert(1, os.path.join(os.getcwd(), "selftests", "isolation"))
import avocado_i2n
assert avocado_i2n.__file__.startswith(os.getcwd() + os.sep), avocado_i2n.__file__
import logging
logging.disable(logging.CRITICAL)
from avocado_i2n import params_parser as param
from avocado_i2n.cartgraph import *

def dump(graph):
    for n in graph.nodes:
        print(n.prefix, n.params["name"], "flat" if n.is_flat() else "", "SRC" if n.cloned_nodes else "")
        for s, objs in n.setup_nodes.items():
            print("      <-", s.prefix, s.params["name"], [o.long_suffix for o in objs])
