from hunt.lazy import *
from hunt.check import check, check_bridges
g = eager_graph("only normal\nonly tutorial1,tutorial_gui\n", {"vm1": "only CentOS\n", "vm2": "only Win10\n", "vm3": "only Ubuntu\n"}, {"nets": "cluster2.net9 net1"})
for n in g.nodes:
    if not n.is_flat(): print(n.prefix, n.params["shortname"][:60], n.params["nets"])
print(len(check(g) + check_bridges(g)))
