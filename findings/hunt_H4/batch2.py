from hunt.common import *
from hunt.check import check, check_bridges
from hunt.lazy import eager_graph, lazy_graph
import time, sys, traceback
STD = {"vm1": "only CentOS\n", "vm2": "only Win10\n", "vm3": "only Ubuntu\n"}
CFGS = {
 "A": ("only leaves\nonly tutorial_gui,tutorial_get,tutorial_finale\n", STD, {"nets": "net1 net2 net3"}),
 "B": ("only leaves\nonly tutorial1,tutorial_gui\n", {"vm1": "", "vm2": "", "vm3": "only Ubuntu\n"}, {"nets": "net3 net5 net4"}),
 "C": ("only leaves\nonly tutorial_get..implicit_both,tutorial_finale\n", {"vm1": "only CentOS\n", "vm2": "", "vm3": "only Ubuntu\n"}, {"nets": "net2 net1"}),
 "D": ("only leaves\nonly tutorial1,tutorial_gui\n", {"vm1": "only CentOS\n", "vm2": "only Win7\n", "vm3": "only Ubuntu\n"}, {"nets": "cluster2.net9 cluster1.net7 net1 cluster2.net6"}),
}
mode = sys.argv[1]
which = sys.argv[2:] or list(CFGS)
for k in which:
    restr, vms, params = CFGS[k]
    t = time.time()
    try:
        g = eager_graph(restr, vms, params) if mode == "eager" else lazy_graph(restr, vms, params)
    except Exception as e:
        print(k, "EXC", type(e).__name__, str(e)[:300])
        traceback.print_exc()
        continue
    print(k, mode, "parsed", len(g.nodes), "nodes in", round(time.time()-t,1))
    errs = check(g) + check_bridges(g)
    print(k, "errors", len(errs))
    sys.stdout.flush()
