from hunt.common import *
import asyncio, unittest.mock as mock
from aexpect.exceptions import ShellCmdError
import avocado_i2n.cartgraph.node as nodemod
import avocado_i2n.cartgraph.worker as workermod

class FakeDoor:
    DUMP_CONTROL_DIR = "/tmp"
    @staticmethod
    def run_subcontrol(session, path):
        raise ShellCmdError(1, "command", "AssertionError")
    @staticmethod
    def set_subcontrol_parameter(*a): return "x"
    @staticmethod
    def set_subcontrol_parameter_dict(*a): return "x"

class FakeRunner:
    def __init__(self, sleep=0.01):
        self.previous_results = []
        self.ran = []
        self.sleep = sleep
    async def run_test_node(self, node):
        res = {"name": node.params["name"], "status": "UNKNOWN"}
        node.results += [res]
        self.ran.append((node.started_worker.id, node.params["name"]))
        await asyncio.sleep(self.sleep)
        node.results.remove(res)
        node.results += [{"name": node.params["name"], "status": "PASS", "time_elapsed": "1"}]
        return True

def lazy_graph(restriction, vm_strs, params, sleep=0.01, order=None, timeout=900):
    params = dict(params)
    params.setdefault("shared_pool", "/mnt/local/images/shared")
    params.setdefault("test_timeout", 100)
    graph = TestGraph()
    graph.restrs.update(vm_strs)
    loaded = TestGraph.parse_flat_nodes(restriction, params)
    for node in loaded:
        node.update_restrs(vm_strs)
    graph.new_nodes(loaded)
    graph.parse_shared_root_from_object_roots(params)
    graph.new_workers(TestGraph.parse_workers(params))
    graph.runner = FakeRunner(sleep)
    workers = sorted(graph.workers.values(), key=lambda x: x.params["name"])
    if order:
        workers = [graph.workers[w] for w in order]
    loop = asyncio.new_event_loop()
    async def main():
        await asyncio.wait_for(asyncio.gather(*[graph.traverse_object_trees(w, dict(params)) for w in workers]), timeout)
    with mock.patch.object(nodemod, "door", FakeDoor), mock.patch.object(workermod.remote, "wait_for_login", mock.MagicMock()):
        loop.run_until_complete(main())
    loop.close()
    return graph

def eager_graph(restriction, vm_strs, params):
    params = dict(params)
    params.setdefault("shared_pool", "/mnt/local/images/shared")
    params.setdefault("test_timeout", 100)
    return TestGraph.parse_object_trees(None, restriction, "", dict(vm_strs), params)

def shape(graph):
    out = {}
    for n in graph.nodes:
        if n.is_flat():
            continue
        key = (n.setless_form, bool(n.cloned_nodes))
        val = sorted((p.setless_form, tuple(sorted(o.long_suffix for o in objs))) for p, objs in n.setup_nodes.items() if not p.is_flat())
        out.setdefault(key, []).append(val)
    for k in out: out[k].sort()
    return out

def diff(e, l):
    se, sl = shape(e), shape(l)
    errs = []
    for k in sorted(set(se) | set(sl)):
        if k not in sl:
            errs.append(f"ONLY-EAGER {k}")
        elif k not in se:
            errs.append(f"ONLY-LAZY {k}")
        elif se[k] != sl[k]:
            errs.append(f"DIFF {k}\n    eager={se[k]}\n    lazy={sl[k]}")
    return errs
