#!/usr/bin/env python
"""
Demo for finding F7 (property C18).

C18: building a vm network from parameters assigns every interface to exactly
one network configuration whose subnet contains its address, without duplicate
addresses, and this remains true when an interface is reattached to another
vm's network.

Run from the worktree root:  /venv/bin/python finding_out/demo.py
Exit code 0 = property holds, 1 = property violated.

The setup is the same one used by selftests/isolation/test_vm_network.py
(two vms with two nics each, mocked vm objects, real VMNetwork / VMNetconfig /
VMInterface code).
"""

import os
import sys
import ipaddress
import unittest.mock as mock

# make sure the worktree's avocado_i2n is the one under test (and not some
# other installed copy) no matter how the script is invoked
sys.path.insert(0, os.path.dirname(os.path.dirname(os.path.abspath(__file__))))

from virttest import utils_params

import avocado_i2n
from avocado_i2n.vmnet import VMNetwork

print("Using avocado_i2n from %s" % os.path.dirname(avocado_i2n.__file__))


def build_vmnet():
    params = utils_params.Params()
    params["vms"] = "vm1 vm2"
    params["roles"] = "node1 node2"
    params["node1"] = "vm1"
    params["node2"] = "vm2"
    params["nics"] = "b1 b2"
    params["nic_roles"] = "internet_nic lan_nic"
    params["internet_nic"] = "b1"
    params["lan_nic"] = "b2"
    params["mac"] = "00:00:00:00:00:00"
    params["netmask_b1"] = "255.255.0.0"
    params["netmask_b2"] = "255.255.0.0"
    params["ip_b1_vm1"] = "10.1.0.1"
    params["ip_b2_vm1"] = "172.17.0.1"
    params["ip_b1_vm2"] = "10.2.0.1"
    params["ip_b2_vm2"] = "172.18.0.1"
    params["netdst_b1_vm1"] = "virbr0"
    params["netdst_b2_vm1"] = "virbr1"
    params["netdst_b1_vm2"] = "virbr2"
    params["netdst_b2_vm2"] = "virbr3"

    mock_vms = {}
    for vm_name in params.objects("vms"):
        vm = mock.MagicMock(name=vm_name)
        vm.name = vm_name
        vm.params = params.object_params(vm_name)
        mock_vms[vm_name] = vm
    env = mock.MagicMock(name="env")
    env.get_vm = mock.MagicMock(side_effect=lambda name: mock_vms.get(name))
    return VMNetwork(params, env)


def check_c18(vmnet):
    """Return a list of human readable C18 violations for the vm network."""
    problems = []
    netconfigs = list(vmnet.netconfigs.values())

    # registry side: key == ip, back reference, subnet membership
    for nc in netconfigs:
        network = ipaddress.ip_network("%s/%s" % (nc.net_ip, nc.netmask))
        for key, iface in nc.interfaces.items():
            name = "%s.%s" % (iface.node.name, iface.name)
            if key != iface.ip:
                problems.append(
                    "netconfig %s registers %s under key %s but its ip is %s"
                    % (nc.net_ip, name, key, iface.ip)
                )
            if iface.netconfig is not nc:
                problems.append(
                    "netconfig %s registers %s but the interface points to netconfig %s"
                    % (nc.net_ip, name, iface.netconfig.net_ip)
                )
            if ipaddress.ip_address(iface.ip) not in network:
                problems.append(
                    "netconfig %s (%s) registers %s whose ip %s is outside of the subnet"
                    % (nc.net_ip, network, name, iface.ip)
                )
        # the project's own validator
        try:
            nc.validate()
        except BaseException as error:
            problems.append(
                "netconfig %s fails its own validate(): %r" % (nc.net_ip, error)
            )

    # interface side: exactly one registry, the one it points to, containing subnet
    for ikey, iface in vmnet.interfaces.items():
        holders = [
            nc for nc in netconfigs
            if any(other is iface for other in nc.interfaces.values())
        ]
        if len(holders) != 1:
            problems.append(
                "interface %s (ip %s) is registered in %d netconfigs %s instead of exactly 1"
                % (ikey, iface.ip, len(holders), [nc.net_ip for nc in holders])
            )
        elif holders[0] is not iface.netconfig:
            problems.append(
                "interface %s is registered in %s but points to %s"
                % (ikey, holders[0].net_ip, iface.netconfig.net_ip)
            )
        own = iface.netconfig
        network = ipaddress.ip_network("%s/%s" % (own.net_ip, own.netmask))
        if ipaddress.ip_address(iface.ip) not in network:
            problems.append(
                "interface %s ip %s is outside of the subnet %s of its netconfig"
                % (ikey, iface.ip, network)
            )

    # no duplicate addresses
    seen = {}
    for ikey, iface in vmnet.interfaces.items():
        if iface.ip in seen:
            problems.append(
                "duplicate address %s used by both %s and %s"
                % (iface.ip, seen[iface.ip], ikey)
            )
        seen.setdefault(iface.ip, ikey)
    return problems


def report(title, vmnet):
    print("=== %s" % title)
    print(vmnet)
    problems = check_c18(vmnet)
    for problem in problems:
        print("  VIOLATION: %s" % problem)
    if not problems:
        print("  C18 holds")
    return problems


def main():
    failed = False

    vmnet = build_vmnet()
    client, server = vmnet.get_vms()
    failed |= bool(report("freshly built network", vmnet))

    vmnet.reattach_interface(client, server)
    failed |= bool(report("after reattach_interface(vm1, vm2) [no proxy nic]", vmnet))

    vmnet = build_vmnet()
    client, server = vmnet.get_vms()
    vmnet.reattach_interface(client, server, proxy_nic="b1")
    failed |= bool(
        report("after reattach_interface(vm1, vm2, proxy_nic='b1')", vmnet)
    )

    # practical consequence: the corrupted registry of the server's netconfig
    # makes any later attachment to that netconfig blow up in validate()
    print("=== follow-up reattach_interface(vm1, vm2, client_nic='lan_nic')")
    try:
        vmnet.reattach_interface(client, server, client_nic="lan_nic")
        print("  follow-up reattach succeeded")
        failed |= bool(report("after the follow-up reattach", vmnet))
    except BaseException as error:
        print("  VIOLATION: follow-up reattach to the same netconfig raised %r" % error)
        failed = True

    print("RESULT: %s" % ("C18 VIOLATED" if failed else "C18 holds"))
    return 1 if failed else 0


if __name__ == "__main__":
    sys.exit(main())
