#!/usr/bin/env python
"""
Demo for finding F5: a lost test result leaves a pending UNKNOWN placeholder in node.results.

Run from the worktree root:  /venv/bin/python finding_out/demo.py
Exit code 0 = property holds, non-zero = property violated.

Scenario (real TestGraph traversal + real TestRunner.run_test_node; only the spawning of the
test subprocess `run_test_task` and the VM state backend are mocked as in selftests/isolation):

  one worker (net1) runs "leaves..tutorial_gui" (client_noop + client_clicked and their setup);
  the task of `client_noop` finishes without its result ever reaching job.result.tests (e.g. the
  spawner could not start the task -> avocado's state machine finishes it as FAIL_START without
  any status message), so run_test_node goes through its bounded polling loop and takes the
  for-else path "could not be found and extracted, defaulting to ERROR".

Expected (property C02): after the traversal every executed node has a definite, non-pending
status recorded (here: ERROR for the lost one) and behaves just as if ERROR was reported.
A control run where the same test reports a regular ERROR is used for comparison.
"""
import os
import sys
import asyncio
import logging
import unittest.mock as mock

HERE = os.path.dirname(os.path.abspath(__file__))
ROOT = os.path.dirname(HERE)
sys.path.insert(0, ROOT)
sys.path.insert(0, os.path.join(ROOT, "selftests", "isolation"))

from unittest_utils import DummyStateControl  # noqa: E402
from avocado_i2n.plugins.loader import TestLoader  # noqa: E402
from avocado_i2n.plugins.runner import TestRunner  # noqa: E402
from avocado_i2n.cartgraph import TestGraph, TestSwarm  # noqa: E402

logging.disable(logging.CRITICAL)

SHARED_POOL = "/mnt/local/images/shared"
POOL = ":" + SHARED_POOL
LOST = "client_noop"

_real_sleep = asyncio.sleep


async def _fast_sleep(delay, *args, **kwargs):
    # run_test_node polls 10 times with a 30 seconds sleep -> do not wait 5 minutes for the demo
    await _real_sleep(min(delay, 0.01))


def make_run_test_task(mode, executed):
    """Stand-in for the subprocess spawning only; results are "reported" via job.result.tests."""

    async def run_test_task(self, node):
        executed.append(node.params["name"])
        assert "UNKNOWN" in [r["status"] for r in node.results]
        await _real_sleep(0.01)
        if LOST in node.params["name"]:
            if mode == "lost":
                # the task ended but no result message was ever received for it
                return
            status = "ERROR"
        else:
            status = "PASS"
        testid = type("Mock", (), {"uid": node.id_test.uid, "name": node.params["name"]})()
        self.job.result.tests.append(
            {"name": testid, "status": status, "time_elapsed": "1", "logdir": "."}
        )

    return run_test_task


def run_scenario(mode):
    config = {
        "param_dict": {
            "nets": "net1",
            "test_timeout": 100,
            "pool_filter": "copy",
            "shared_pool": SHARED_POOL,
        },
        "tests_str": "only normal\n",
        "vm_strs": {"vm1": "only CentOS\n", "vm2": "only Win10\n", "vm3": "only Ubuntu\n"},
    }
    TestLoader(config=config, extra_params={})
    TestSwarm.run_swarms = {}

    job = mock.MagicMock()
    job.logdir = "."
    job.timeout = 6000
    job.result = mock.MagicMock()
    job.result.tests = []
    job.config = config
    runner = TestRunner()
    runner.job = job
    runner.status_server = job

    DummyStateControl.asserted_states = {"check": {}, "get": {}, "set": {}, "unset": {}}
    DummyStateControl.asserted_states["check"] = {
        s: {POOL: False}
        for s in ["connect", "linux_virtuser", "windows_virtuser", "on_customize",
                  "guisetup.noop", "guisetup.clicked"]
    }
    DummyStateControl.asserted_states["check"]["install"] = {POOL: True}
    DummyStateControl.asserted_states["check"]["customize"] = {POOL: True}
    DummyStateControl.asserted_states["get"] = {
        s: {POOL: 0}
        for s in ["install", "customize", "on_customize", "connect", "linux_virtuser",
                  "windows_virtuser", "guisetup.noop", "guisetup.clicked"]
    }
    DummyStateControl.asserted_states["unset"] = {"guisetup.noop": {POOL: 0}}

    graph = TestGraph()
    graph.restrs.update(config["vm_strs"])
    loaded_nodes = TestGraph.parse_flat_nodes("leaves..tutorial_gui")
    for node in loaded_nodes:
        node.update_restrs(config["vm_strs"])
    graph.new_nodes(loaded_nodes)
    graph.parse_shared_root_from_object_roots()
    graph.new_workers(TestGraph.parse_workers({"nets": "net1"}))
    graph.runner = runner

    executed = []
    workers = sorted(graph.workers.values(), key=lambda x: x.params["name"])
    with mock.patch.object(TestRunner, "run_test_task", make_run_test_task(mode, executed)), \
            mock.patch("avocado_i2n.plugins.runner.asyncio.sleep", _fast_sleep):
        loop = asyncio.new_event_loop()
        asyncio.set_event_loop(loop)
        loop.run_until_complete(
            asyncio.wait_for(
                asyncio.gather(*[graph.traverse_object_trees(w, {"test_timeout": 100}) for w in workers]),
                120,
            )
        )
        loop.close()

    lost_nodes = [n for n in graph.nodes if not n.is_flat() and LOST in n.params["name"]]
    assert len(lost_nodes) == 1, lost_nodes
    statuses = {
        n.params["shortname"]: [r["status"] for r in n.results]
        for n in graph.nodes
        if not n.is_flat() and n.params["name"] in executed
    }
    unsets = DummyStateControl.asserted_states["unset"]["guisetup.noop"][POOL]
    return lost_nodes[0], statuses, unsets, executed


def main():
    with mock.patch("avocado_i2n.cartgraph.worker.remote.wait_for_login", mock.MagicMock()), \
            mock.patch("avocado_i2n.cartgraph.node.door", DummyStateControl), \
            mock.patch("avocado_i2n.plugins.runner.SpawnerDispatcher", mock.MagicMock()):
        results = {mode: run_scenario(mode) for mode in ["reported_error", "lost"]}

    problems = []
    for mode, (lost_node, statuses, unsets, executed) in results.items():
        print(f"\n=== scenario: result of {LOST} is {mode} ===")
        print(f"executed {len(executed)} test tasks")
        for shortname, node_statuses in statuses.items():
            print(f"  {shortname}: recorded statuses {node_statuses}")
        print(f"  cleanup (unset) calls of the reversible {LOST} state guisetup.noop: {unsets}")

    lost_node, statuses, unsets, executed = results["lost"]
    control_node, control_statuses, control_unsets, control_executed = results["reported_error"]
    lost_statuses = [r["status"] for r in lost_node.results]

    pending = {s: sts for s, sts in statuses.items() if "UNKNOWN" in sts}
    if pending:
        problems.append(
            f"nodes left with a pending UNKNOWN status after the whole traversal finished: {pending}"
        )
    if "ERROR" not in lost_statuses:
        problems.append(
            f"run_test_node logged 'defaulting to ERROR' and returned False for {lost_node.params['shortname']} "
            f"but recorded no ERROR result, node.results statuses are {lost_statuses} "
            f"(control with reported ERROR: {[r['status'] for r in control_node.results]})"
        )
    if unsets != control_unsets:
        problems.append(
            f"the reversible node was cleaned {unsets} times after a lost result but {control_unsets} times "
            f"after a regular ERROR: default_clean_decision sees 'unknown' and treats the node as still running forever"
        )
    if len(executed) != len(control_executed):
        problems.append(
            f"different number of executed tasks: lost={len(executed)} control={len(control_executed)}"
        )

    print()
    if problems:
        print("PROPERTY VIOLATED (C02: definite, non-pending status for every executed test):")
        for problem in problems:
            print(" - " + problem)
        return 1
    print("OK: a lost result is recorded as a definite ERROR status and the node behaves as with a reported ERROR")
    return 0


if __name__ == "__main__":
    sys.exit(main())
