"""
C20: the net management steps start/stop crash with KeyError('nets') when no nets= or
only_nets= argument is given, although all other manual steps (and parse_workers that
start/stop use themselves) fall back to all configured nets or the given slots=.
Exit 1 if the violation is present.
"""
import os
import sys
import unittest.mock as mock

sys.path.insert(0, os.path.join(os.getcwd(), "hunt"))
from harness import Recorder, run_chain
from avocado_i2n.cartgraph import TestWorker

bad = False
for args in (["setup=stop"], ["setup=stop", "slots=c101,c102"], ["setup=stop", "nets=net1,net2"]):
    with mock.patch.object(TestWorker, "stop", mock.MagicMock()) as stop:
        config, rets = run_chain(args)
    print(" ".join(args), "-> step result", repr(rets[0]), "| workers stopped:", stop.call_count)
    if rets[0] != 0 or stop.call_count == 0:
        bad = True
if bad:
    print("VIOLATION: the step was not executed on the default workers")
    sys.exit(1)
print("OK")
sys.exit(0)
