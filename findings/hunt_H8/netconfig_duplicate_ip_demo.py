"""
C18: two interfaces with the same address in the same subnet are silently accepted
when the vm network is built; the second one overwrites the first one in the
netconfig so the first interface points to a netconfig that does not contain it.
(selftests/isolation/test_vm_network.py:test_integrate_node has the expected
IndexError for a "repeated address in the netconfig" commented out as "BUG".)
Exit 1 if the violation is present.
"""
import os
import sys

sys.path.insert(0, os.path.join(os.getcwd(), "hunt"))
from vmnet_common import base_params, network

params = base_params()
# vm2's internet nic gets the address of vm1's internet nic (same /16 netmask)
params["ip_b1_vm2"] = "10.1.0.1"
try:
    net, env = network(params)
except IndexError as error:
    print("OK: duplicate address rejected:", error)
    sys.exit(0)

violations = []
addresses = {}
for key, iface in net.interfaces.items():
    in_own = iface.netconfig.interfaces.get(iface.ip) is iface
    holders = [nc.net_ip for nc in net.netconfigs.values() if iface in nc.interfaces.values()]
    print(f"{key}: ip={iface.ip} netconfig={iface.netconfig.net_ip} registered_in={holders}")
    if not in_own or len(holders) != 1:
        violations.append(f"{key} is assigned to netconfig {iface.netconfig.net_ip} but registered in {holders}")
    addresses.setdefault(iface.ip, []).append(key)
for ip, keys in addresses.items():
    if len(keys) > 1:
        violations.append(f"address {ip} is used by {keys}")
if violations:
    print("VIOLATION:", "; ".join(violations))
    sys.exit(1)
print("OK")
sys.exit(0)
