"""Shared harness for the hunt demos: drives the real manual tools with a mocked environment."""
import os
import sys
import asyncio
import contextlib
import logging
import unittest.mock as mock

sys.path.insert(0, os.getcwd())
os.environ["HOME"] = os.path.join(os.getcwd(), "hunt", "home")
os.makedirs(os.environ["HOME"], exist_ok=True)
import avocado_i2n

assert os.path.dirname(os.path.dirname(os.path.abspath(avocado_i2n.__file__))) == os.getcwd(), avocado_i2n.__file__

from aexpect.exceptions import ShellCmdError
from avocado_i2n import cmd_parser, intertest_setup
from avocado_i2n.plugins.runner import TestRunner

logging.disable(logging.CRITICAL)


class Recorder:
    """Record every executed test node and every state operation."""

    runs = []
    state_ops = []
    fail = []  # list of regexes on shortname that will FAIL
    present_states = None  # None: nothing present; else set of state names that are present

    action = "check"
    params = {}

    @classmethod
    def reset(cls):
        cls.runs = []
        cls.state_ops = []
        cls.fail = []
        cls.present_states = None

    # door interface
    @staticmethod
    def set_subcontrol_parameter(_, __, do):
        Recorder.action = do

    @staticmethod
    def set_subcontrol_parameter_dict(_, __, node_params):
        Recorder.params = node_params

    @staticmethod
    def run_subcontrol(session, mod_control_path):
        do, params = Recorder.action, Recorder.params
        ops = []
        for key, val in params.items():
            if key.startswith(f"{do}_state_") and val:
                ops.append((do, key[len(do) + 7:], val, params.get("nets"), params.get("shortname")))
        Recorder.state_ops.extend(ops)
        if do == "check":
            present = Recorder.present_states or set()
            for op in ops:
                if op[2] not in present:
                    raise ShellCmdError(1, "command", "AssertionError")

    @staticmethod
    async def mock_run_test_task(self, node):
        import re
        if not hasattr(self.job, "result"):
            self.job.result = mock.MagicMock()
            self.job.result.tests = []
        await asyncio.sleep(0.01)
        shortname = node.params["shortname"]
        status = "PASS"
        for regex in Recorder.fail:
            if re.search(regex, shortname):
                status = "FAIL"
        Recorder.runs.append({"shortname": shortname, "vms": node.params.get("vms"),
                              "nets": node.params.get("nets"), "status": status,
                              "params": node.params.copy()})
        mocktestid = type("Mock", (), {"uid": node.id_test.uid, "name": node.params["name"]})()
        self.job.result.tests.append({"name": mocktestid, "status": status, "time_elapsed": "1", "logdir": "."})
        return status == "PASS"


@contextlib.contextmanager
def new_job(config):
    job = mock.MagicMock()
    job.logdir = "."
    job.timeout = 60
    job.config = config
    job.result.tests = []
    loader, runner = config["graph"].l, config["graph"].r
    loader.logdir = job.logdir
    runner.job = job
    yield job


@contextlib.contextmanager
def mocked_env():
    with contextlib.ExitStack() as stack:
        stack.enter_context(mock.patch('avocado_i2n.intertest_setup.new_job', new_job))
        stack.enter_context(mock.patch('avocado_i2n.cartgraph.worker.remote.wait_for_login', mock.MagicMock()))
        stack.enter_context(mock.patch('avocado_i2n.cartgraph.node.door', Recorder))
        stack.enter_context(mock.patch('avocado_i2n.cartgraph.worker.TestWorker.start', mock.MagicMock()))
        stack.enter_context(mock.patch('avocado_i2n.plugins.runner.SpawnerDispatcher', mock.MagicMock()))
        stack.enter_context(mock.patch.object(TestRunner, 'run_test_task', Recorder.mock_run_test_task))
        yield


def config_from_cmd(args):
    config = {"params": list(args)}
    cmd_parser.params_from_cmd(config)
    return config


def run_chain(args, steps=None):
    """Emulate the manu plugin: parse the command line and run the setup chain."""
    Recorder.runs, Recorder.state_ops = [], []
    config = config_from_cmd(args)
    run_params = config["vms_params"]
    steps = steps if steps is not None else run_params.objects("setup")
    retcodes = []
    with mocked_env():
        for i, step in enumerate(steps):
            run_params["count"] = i
            func = getattr(intertest_setup, step)
            try:
                ret = func(config, "0m%s" % i)
            except Exception as error:
                ret = error
            retcodes.append(ret)
    return config, retcodes
