"""
C20: a setup chain with a repeated step (documented: "adding multiple *run* steps
throughout the setup chain") silently drops every repetition of a step.

Drives the real Manu plugin entry point (plugins/manu.py:Manu.run) with the
environment mocked like selftests/isolation/test_intertest_setup.py.
Exit 1 if the violation is present.
"""
import os
import sys

sys.path.insert(0, os.path.join(os.getcwd(), "hunt"))
from harness import Recorder, mocked_env

from avocado_i2n.plugins.manu import Manu

chain = ["get", "boot", "get", "shutdown", "get"]
config = {"i2n.manu.params": ["setup=" + ",".join(chain), "vms=vm1", "nets=net1", "get_state_images=customize"]}
Recorder.reset()
with mocked_env():
    retcode = Manu().run(config)

executed = []
for run in Recorder.runs:
    name = run["shortname"]
    step = "get" if ".stateful.get." in name else "boot" if ".manage.start." in name else "shutdown" if ".manage.stop." in name else name
    executed.append(step)
print("requested chain:", chain)
print("executed steps :", executed, "(exit status %s)" % retcode)
if executed != chain:
    print("VIOLATION: the chain was not executed as given (repeated steps were dropped)")
    sys.exit(1)
print("OK: every step of the chain ran once per vm and worker, in the given order")
sys.exit(0)
