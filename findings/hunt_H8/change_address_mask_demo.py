"""
C18: change_network_address(netconfig, new_ip, new_mask) translates the interface
addresses with the OLD prefix length of the netconfig, so when the new netmask is
longer (e.g. /16 -> /24) the interfaces land outside of the target subnet although
their host offset fits into it.
Exit 1 if the violation is present.
"""
import os
import sys

sys.path.insert(0, os.path.join(os.getcwd(), "hunt"))
from vmnet_common import base_params, network
from avocado.core import exceptions

params = base_params()
params["os_type"] = "windows"
net, env = network(params)
netconfig = net.netconfigs["10.1.0.0"]
print("before:", netconfig, sorted(netconfig.interfaces))
try:
    net.change_network_address(netconfig, "192.168.5.1", "255.255.255.0")
except exceptions.TestError as error:
    print("change_network_address(10.1.0.0/16 -> 192.168.5.1/24) raised:", error)
    print("VIOLATION: host offset 1 must map to 192.168.5.1 in the target subnet 192.168.5.0/24")
    sys.exit(1)
print("after:", netconfig, sorted(netconfig.interfaces))
if sorted(netconfig.interfaces) != ["192.168.5.1"] or netconfig.net_ip != "192.168.5.0":
    print("VIOLATION")
    sys.exit(1)
print("OK")
sys.exit(0)
