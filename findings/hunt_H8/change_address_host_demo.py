"""
C18: VMNetwork.change_network_address translates the interfaces and the gateway
(ip_provider) of a netconfig but not its host address, so moving any netconfig the
host participates in (host_<nic> is defined for b0/b1 of every vm in the shipped
tp_folder/configs/vms.cfg) fails the netconfig validation and leaves the network
model half updated (the netconfig is no longer registered in VMNetwork.netconfigs).
Exit 1 if the violation is present.
"""
import os
import sys

sys.path.insert(0, os.path.join(os.getcwd(), "hunt"))
from vmnet_common import base_params, network
from avocado.core import exceptions

params = base_params()
params["os_type"] = "windows"
# same values as vm1's b1 nic in the shipped sample vms.cfg
params["ip_provider_b1_vm1"] = "10.1.0.254"
params["host_b1_vm1"] = "10.1.0.254"
net, env = network(params)
netconfig = net.netconfigs["10.1.0.0"]
print("before:", netconfig, "host", netconfig.host_ip, "gateway", netconfig.gateway)
try:
    net.change_network_address(netconfig, "10.3.0.1")
except exceptions.TestError as error:
    print("change_network_address(10.1.0.0 -> 10.3.0.1) raised:", error)
    print("registered netconfigs afterwards:", sorted(net.netconfigs.keys()),
          "| interface addresses:", sorted(netconfig.interfaces.keys()))
    print("VIOLATION: the host address was not translated together with the gateway and interfaces")
    sys.exit(1)
print("after:", netconfig, "host", netconfig.host_ip, "gateway", netconfig.gateway)
ok = (netconfig.host_ip == "10.3.0.254" and netconfig.gateway == "10.3.0.254"
      and sorted(netconfig.interfaces) == ["10.3.0.1"] and "10.3.0.0" in net.netconfigs)
if not ok:
    print("VIOLATION: inconsistent netconfig after the address change")
    sys.exit(1)
print("OK: host, gateway and interfaces keep their host offsets in the new subnet")
sys.exit(0)
