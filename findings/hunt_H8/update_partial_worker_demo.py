"""
C15: the update tool rejects a legitimate request when one of the workers supports
only a subset of the selected vm's variants (net5 has "only_vm1 = Fedora" in the
shipped nets.cfg, vm1 is unrestricted via only_vm1=).

Expected: the setup path customize..customize is rerun for each vm1 variant and the
dependant states are removed on every worker compatible with the variant.
Exit 1 if the violation is present.
"""
import os
import sys

sys.path.insert(0, os.path.join(os.getcwd(), "hunt"))
from harness import Recorder, run_chain

def update(nets):
    args = ["setup=update", "vms=vm1", "only_vm1=", "nets=" + nets,
            "from_state=customize", "to_state=customize", "remove_set=leaves"]
    Recorder.reset()
    config, rets = run_chain(args)
    runs = sorted((("CentOS" if "CentOS" in r["shortname"] else "Fedora"), r["shortname"].split(".vm1.")[0]) for r in Recorder.runs)
    unsets = sorted({(("CentOS" if "CentOS" in o[4] else "Fedora"), o[3], o[2]) for o in Recorder.state_ops if o[0] == "unset"})
    print("command line:", " ".join(args))
    print("  exit status of the update step:", repr(rets[0]))
    print("  executed:", runs)
    print("  removed :", unsets)
    return rets[0], runs, unsets


# reference: net1 alone supports both variants of vm1
ref_status, ref_runs, ref_unsets = update("net1")
assert ref_status == 0 and len(ref_runs) == 2, "the reference run must work"
# net5 supports only the Fedora variant so it has to drop the Fedora dependants too (and only them)
expected_unsets = sorted(ref_unsets + [(v, "net5", s) for v, n, s in ref_unsets if v == "Fedora"])

status, runs, unsets = update("net1,net5")
if status != 0 or runs != ref_runs or unsets != expected_unsets:
    print("VIOLATION: the update of an existing state path was rejected or incomplete")
    sys.exit(1)
print("OK: path rerun for each variant, dependants dropped on each compatible worker only")
sys.exit(0)
