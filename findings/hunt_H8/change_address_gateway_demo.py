"""
C18: a netconfig without ip_provider has the documented "no gateway" default 0.0.0.0
(netconfig.py from_interface); change_network_address translates this sentinel like
a host address which yields a garbage gateway (used for the static nic configuration)
or an AddressValueError when the new network is numerically lower than the old one.
Exit 1 if the violation is present.
"""
import os
import sys
import ipaddress

sys.path.insert(0, os.path.join(os.getcwd(), "hunt"))
from vmnet_common import base_params, network

bad = False
for old_net, new_ip in (("10.1.0.0", "10.3.0.1"), ("10.2.0.0", "9.0.0.1")):
    params = base_params()
    params["os_type"] = "windows"
    net, env = network(params)
    netconfig = net.netconfigs[old_net]
    gateway_before = netconfig.gateway
    try:
        net.change_network_address(netconfig, new_ip)
    except ipaddress.AddressValueError as error:
        print(f"{old_net} -> {new_ip}: gateway before {gateway_before}, raised AddressValueError: {error}")
        bad = True
        continue
    print(f"{old_net} -> {new_ip}: gateway before {gateway_before}, after {netconfig.gateway}")
    own = ipaddress.ip_network("%s/%s" % (netconfig.net_ip, netconfig.mask_bit))
    if netconfig.gateway != "0.0.0.0" and ipaddress.ip_address(netconfig.gateway) not in own:
        bad = True
if bad:
    print("VIOLATION: the undefined gateway 0.0.0.0 was translated as if it was a host of the netconfig")
    sys.exit(1)
print("OK")
sys.exit(0)
