"""Common helpers for the vmnet demos (mocked env exactly like selftests/isolation/test_vm_network.py)."""
import os
import sys
import logging
import unittest.mock as mock

sys.path.insert(0, os.getcwd())
import avocado_i2n

assert os.path.dirname(os.path.dirname(os.path.abspath(avocado_i2n.__file__))) == os.getcwd(), avocado_i2n.__file__
logging.disable(logging.CRITICAL)

from virttest import utils_params
from avocado_i2n.vmnet import VMNetwork


def base_params():
    p = utils_params.Params()
    p["vms"] = "vm1 vm2"
    p["roles"] = "node1 node2"
    p["node1"] = "vm1"
    p["node2"] = "vm2"
    p["nics"] = "b1 b2"
    p["nic_roles"] = "internet_nic lan_nic"
    p["internet_nic"] = "b1"
    p["lan_nic"] = "b2"
    p["mac"] = "00:00:00:00:00:00"
    p["netmask_b1"] = "255.255.0.0"
    p["netmask_b2"] = "255.255.0.0"
    p["ip_b1_vm1"] = "10.1.0.1"
    p["ip_b2_vm1"] = "172.17.0.1"
    p["ip_b1_vm2"] = "10.2.0.1"
    p["ip_b2_vm2"] = "172.18.0.1"
    p["netdst_b1_vm1"] = "virbr0"
    p["netdst_b2_vm1"] = "virbr1"
    p["netdst_b1_vm2"] = "virbr2"
    p["netdst_b2_vm2"] = "virbr3"
    return p


class Env:
    def __init__(self):
        self.vms = {}

    def get_vm(self, name):
        return self.vms.get(name)

    def create_vm(self, vm_type, target, name, params, bindir):
        vm = mock.MagicMock(name=name)
        vm.name = name
        vm.params = params
        self.vms[name] = vm
        return vm


def network(params):
    env = Env()
    for vm_name in params.objects("vms"):
        env.create_vm("qemu", None, vm_name, params.object_params(vm_name), "")
    return VMNetwork(params, env), env
