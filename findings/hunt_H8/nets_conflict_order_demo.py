"""
C11: "explicit net suffixes and nets restrictions are mutually exclusive in any order"
(cmd_parser.py) but the conflict of nets=... with an (explicitly supported) empty
only_nets=/no_nets= restriction is only detected in one of the two orders; in the other
order the restriction is silently overridden.
Exit 1 if the violation is present.
"""
import os
import sys

sys.path.insert(0, os.path.join(os.getcwd(), "hunt"))
from harness import config_from_cmd


def outcome(args):
    try:
        config = config_from_cmd(args)
        return "accepted with nets='%s'" % config["param_dict"].get("nets")
    except ValueError as error:
        return "rejected (ValueError: %s...)" % str(error)[:60]


bad = False
for restriction in ("only_nets=", "no_nets="):
    first = outcome(["nets=net1", restriction])
    second = outcome([restriction, "nets=net1"])
    print(f"nets=net1 {restriction:<10} -> {first}")
    print(f"{restriction:<10} nets=net1 -> {second}")
    if first.split()[0] != second.split()[0]:
        bad = True
if bad:
    print("VIOLATION: the same conflicting arguments are rejected or accepted depending on their order")
    sys.exit(1)
print("OK")
sys.exit(0)
