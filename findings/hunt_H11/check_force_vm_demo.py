"""Forced root check of a vm reached via get/set/unset ignores the soft boot option (type 'vms' vs 'nets/vms')."""
import os, sys
sys.path.insert(0, os.getcwd()); sys.path.insert(1, os.path.join(os.getcwd(), "hunt"))
from explore_setup import *
import logging; logging.disable(logging.CRITICAL)

def fresh():
    STORE.roots = set(); STORE.states = {}; STORE.log = []
    for o in [("vm1","image1"),("vm1",),("net:net1",)]:
        STORE.roots.add(o); STORE.states[o] = set()

def run(do, direct):
    fresh()
    p = base_params()
    p["vms"] = "vm1"
    p["skip_types"] = "nets nets/vms/images"
    p["check_mode"] = "ff"
    env = make_env()
    if direct:
        p["check_state_vms"] = "on"
        p["check_opts"] = "soft_boot=yes" if do == "set" else "soft_boot=no"
        ss.check_states(p, env)
    else:
        p[f"{do}_state_vms"] = "on"
        p[f"{do}_mode"] = {"get": "ii", "set": "ff", "unset": "fi"}[do]
        getattr(ss, f"{do}_states")(p, env)
    vm = env.get_vm("vm1")
    unset_roots = [l for l in STORE.log if l[0] == "unset_root"]
    return vm.destroy.call_args_list, unset_roots

bad = 0
for do in ["get", "set", "unset"]:
    direct_calls, direct_unsets = run(do, True)
    chain_calls, chain_unsets = run(do, False)
    print(f"{do}: direct check -> vm.destroy{[tuple(c.kwargs.items()) for c in direct_calls]} unset_root={direct_unsets}")
    print(f"{do}: via {do}_states -> vm.destroy{[tuple(c.kwargs.items()) for c in chain_calls]} unset_root={chain_unsets}")
    if direct_calls != chain_calls or direct_unsets != chain_unsets:
        print(f"VIOLATION: forced vm root during {do} is handled differently (soft boot option dropped)")
        bad = 1

# the same with the real qcow2vt vm backend: a running vm is to be saved with a forced root check
from avocado_i2n.states import qcow2
ss.BACKENDS = {"fake": FakeBackend, "qcow2vt": qcow2.QCOW2VTBackend}
fresh()
p = base_params()
p["vms"] = "vm1"
p["skip_types"] = "nets nets/vms/images"
p["states_vms"] = "qcow2vt"
p["check_mode"] = "ff"
p["set_state_vms"] = "on"
p["set_mode"] = "ff"
p["pool_scope"] = "own"
p["image_name"] = "image"
p["image_format"] = "qcow2"
p["images_base_dir"] = "/images/vm1"
p["vms_base_dir"] = "/images"
env = make_env()
vm = env.get_vm("vm1")
vm.is_alive.return_value = True
with mock.patch("avocado_i2n.states.qcow2.os.path.exists", return_value=True), \
        mock.patch("avocado_i2n.states.qcow2.QemuImg") as qemu_img:
    qemu_img.return_value.snapshot_list.return_value = ""
    ss.set_states(p, env)
print("qcow2vt set_states with check_mode=ff -> vm.destroy calls:", vm.destroy.call_args_list)
if mock.call(gracefully=True) not in vm.destroy.call_args_list:
    print("VIOLATION: the vm to be saved was not shut down gracefully (soft_boot=yes requested by the set chain)")
    bad = 1
sys.exit(bad)
