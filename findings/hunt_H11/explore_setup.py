import os, sys, itertools
sys.path.insert(0, os.getcwd())
sys.path.insert(1, os.path.join(os.getcwd(), "selftests/isolation"))
import unittest.mock as mock
import avocado_i2n
assert avocado_i2n.__file__.startswith(os.getcwd())
from avocado.core import exceptions
from virttest.utils_params import Params
from avocado_i2n.states import setup as ss


class Store:
    def __init__(self):
        self.roots = set()
        self.states = {}
        self.log = []

STORE = Store()

def key(params):
    return params["object_name"] if "/" in params["object_name"] else params["object_name"]

class FakeBackend(ss.StateBackend):
    @classmethod
    def _k(cls, params):
        t = params["object_type"].split("/")[-1]
        if t == "images":
            return (params["vms"], params["images"])
        elif t == "vms":
            return (params["vms"],)
        return ("net:" + params["nets"],)
    @classmethod
    def show(cls, params, object=None):
        return sorted(STORE.states.get(cls._k(params), set()))
    @classmethod
    def get(cls, params, object=None):
        STORE.log.append(("get", cls._k(params), params["get_state"]))
        assert params["get_state"] in STORE.states.get(cls._k(params), set()), "get of missing"
    @classmethod
    def set(cls, params, object=None):
        STORE.log.append(("set", cls._k(params), params["set_state"]))
        STORE.states.setdefault(cls._k(params), set()).add(params["set_state"])
    @classmethod
    def unset(cls, params, object=None):
        STORE.log.append(("unset", cls._k(params), params["unset_state"]))
        STORE.states[cls._k(params)].remove(params["unset_state"])
    @classmethod
    def check_root(cls, params, object=None):
        return cls._k(params) in STORE.roots
    @classmethod
    def get_root(cls, params, object=None):
        STORE.log.append(("get_root", cls._k(params)))
    @classmethod
    def set_root(cls, params, object=None):
        STORE.log.append(("set_root", cls._k(params)))
        STORE.roots.add(cls._k(params))
    @classmethod
    def unset_root(cls, params, object=None):
        STORE.log.append(("unset_root", cls._k(params)))
        STORE.roots.remove(cls._k(params))
        STORE.states.pop(cls._k(params), None)

ss.BACKENDS = {"fake": FakeBackend}

def base_params():
    p = Params()
    p["nets"] = "net1"
    p["vms"] = "vm1 vm2"
    p["images"] = "image1"
    p["images_vm2"] = "image1 image2"
    p["states_chain"] = "nets vms images"
    p["states_nets"] = "fake"
    p["states_vms"] = "fake"
    p["states_images"] = "fake"
    return p

def make_env():
    env = mock.MagicMock()
    vms = {}
    def get_vm(name):
        if name not in vms:
            vms[name] = mock.MagicMock(name=name)
        return vms[name]
    env.get_vm = get_vm
    env.vms = vms
    return env
