import os, sys
sys.path.insert(0, os.getcwd()); sys.path.insert(1, os.path.join(os.getcwd(), "hunt"))
from explore_setup import *
import logging; logging.disable(logging.CRITICAL)

TARGETS = {"images": ("vm2", "image2"), "vms": ("vm2",), "nets": ("net:net1",)}
SUFFIX = {"images": "_images_image2_vm2", "vms": "_vms_vm2", "nets": "_nets_net1"}
letters = "arifx"
rows = []
for do in ["get", "set", "unset"]:
    for typ in ["images", "vms", "nets"]:
        for state in ["s1", "root"]:
            for sp in [True, False]:
                for rp in [True, False]:
                    for check_mode in ["rr", "rf"]:
                        for a in letters:
                            for b in letters:
                                STORE.roots = set(); STORE.states = {}; STORE.log = []
                                # everything else has root+other states
                                allobjs = [("vm1","image1"),("vm1",),("vm2","image1"),("vm2","image2"),("vm2",),("net:net1",)]
                                for o in allobjs:
                                    STORE.roots.add(o); STORE.states[o] = {"other"}
                                tgt = TARGETS[typ]
                                if not rp:
                                    STORE.roots.discard(tgt); STORE.states.pop(tgt, None)
                                elif sp and state != "root":
                                    STORE.states[tgt].add(state)
                                if not rp and sp:
                                    continue
                                before = (set(STORE.roots), {k:set(v) for k,v in STORE.states.items()})
                                p = base_params()
                                p[f"{do}_state{SUFFIX[typ]}"] = state
                                p[f"{do}_mode"] = a+b
                                p["check_mode"] = check_mode
                                env = make_env()
                                try:
                                    getattr(ss, do+"_states")(p, env)
                                    res = "ok"
                                except exceptions.TestAbortError:
                                    res = "abort"
                                except exceptions.TestError:
                                    res = "error"
                                except Exception as e:
                                    res = "EXC %r" % e
                                after = (set(STORE.roots), {k:set(v) for k,v in STORE.states.items()})
                                changed = before != after
                                muts = [l for l in STORE.log if l[0] not in ("get_root",)]
                                touched = {l[1] for l in STORE.log}
                                rows.append((do,typ,state,sp,rp,check_mode,a+b,res,changed,tuple(muts),touched - {tgt}))
import collections
for r in rows:
    do,typ,state,sp,rp,cm,mode,res,changed,muts,other = r
    flag = ""
    if res in ("abort","error") and changed: flag += " CHANGED-ON-RAISE"
    if other: flag += " OTHER-TOUCHED %s" % other
    if res.startswith("EXC"): flag += " EXC"
    if flag:
        print(r, flag)
print(len(rows))
print("=====TABLE")
seen = {}
for r in rows:
    do,typ,state,sp,rp,cm,mode,res,changed,muts,other = r
    if typ != "images": continue
    rel = mode[0] if (sp if state != "root" else rp) else mode[1]
    # with rf, root gets created so root state 'exists'
    k = (do, state, sp, rp, cm, "exist-letter" if (sp if state != "root" else rp) else "missing-letter", rel)
    v = (res, tuple(m[0] for m in muts))
    seen.setdefault(k, set()).add(v)
for k in sorted(seen):
    print(k, seen[k])
