"""push/pop use the node's own set_state_<type>/get_state_<type> instead of push_state/pop_state."""
import os, sys
sys.path.insert(0, os.getcwd()); sys.path.insert(1, os.path.join(os.getcwd(), "hunt"))
from explore_setup import *
import logging; logging.disable(logging.CRITICAL)

def fresh():
    STORE.roots = set(); STORE.states = {}; STORE.log = []
    for o in [("vm1","image1"),("vm1",),("vm2","image1"),("vm2","image2"),("vm2",),("net:net1",)]:
        STORE.roots.add(o); STORE.states[o] = set()

bad = 0
# push: node saves "customize" at its end, the test pushes a temporary "tmp" state on the image
fresh()
p = base_params()
p["vms"] = "vm1"
p["check_mode"] = "rr"
p["skip_types"] = "nets nets/vms"
p["set_state_images"] = "customize"
p["push_state_images"] = "tmp"
ss.push_states(p, make_env())
print("push_state_images=tmp set_state_images=customize ->", STORE.states[("vm1","image1")])
if STORE.states[("vm1","image1")] != {"tmp"}:
    print("VIOLATION: push stored", STORE.states[("vm1","image1")], "instead of {'tmp'}")
    bad = 1

# pop: node starts from "install", the test pops the temporary "tmp" state
fresh()
STORE.states[("vm1","image1")] = {"install", "tmp"}
p = base_params()
p["vms"] = "vm1"
p["check_mode"] = "rr"
p["skip_types"] = "nets nets/vms"
p["get_state_images"] = "install"
p["pop_state_images"] = "tmp"
ss.pop_states(p, make_env())
print("pop_state_images=tmp get_state_images=install ->", STORE.states[("vm1","image1")], STORE.log)
if STORE.states[("vm1","image1")] != {"install"}:
    print("VIOLATION: pop left", STORE.states[("vm1","image1")], "instead of {'install'}")
    bad = 1
gets = [l for l in STORE.log if l[0] == "get"]
if gets != [("get", ("vm1", "image1"), "tmp")]:
    print("VIOLATION: pop reverted the image to", gets, "instead of the popped state 'tmp'")
    bad = 1

# pop mode: shipped sample config style unset_mode_images_vm1 = fi must not replace the pop policy
fresh()
p = base_params()
p["vms"] = "vm1"
p["check_mode"] = "rr"
p["skip_types"] = "nets nets/vms"
p["unset_mode_images_vm1"] = "ri"
p["get_mode_images_vm1"] = "ii"
p["pop_state_images"] = "tmp"
try:
    ss.pop_states(p, make_env())
    print("VIOLATION: pop of a missing state with the default pop policy (abort) passed silently")
    bad = 1
except exceptions.TestAbortError as error:
    print("pop of missing state aborted as documented:", error)
sys.exit(bad)
