"""Getting a pool state whose backing state is missing in the pool passes silently with an incomplete local chain."""
import os, sys, tempfile
sys.path.insert(0, os.getcwd())
import unittest.mock as mock
import avocado_i2n
assert avocado_i2n.__file__.startswith(os.getcwd())
from virttest.utils_params import Params
from avocado_i2n.states import pool
import logging; logging.disable(logging.CRITICAL)

tmp = tempfile.mkdtemp(prefix="h11_")
cache, shared = os.path.join(tmp, "swarm"), os.path.join(tmp, "shared")
image_dir = os.path.join(shared, "vm1-id", "image1")
os.makedirs(image_dir)
# pool has "customize" backed by "install" but "install" was removed from the pool (unset keeps dependants)
open(os.path.join(image_dir, "customize.qcow2"), "w").write("customize-on-install")
deps = {"customize": "install", "install": ""}

p = Params({"vms": "vm1", "images": "image1", "object_id": "vm1-id", "object_type": "nets/vms/images",
            "swarm_pool": cache, "get_state": "customize", "get_location": ":" + shared,
            "show_location": ":" + shared})
print("pool states reported:", pool.QCOW2ImageTransfer.show(p))
with mock.patch.object(pool.QCOW2ImageTransfer, "get_dependency", lambda state, params: deps[state]):
    try:
        pool.QCOW2ImageTransfer.get(p)
        outcome = "passed"
    except Exception as error:
        outcome = f"raised {error!r}"
local = sorted(os.listdir(os.path.join(cache, "vm1-id", "image1")))
print("get of customize", outcome, "- local chain files:", [f for f in local if f.endswith(".qcow2")])
if outcome == "passed" and "install.qcow2" not in local:
    print("VIOLATION: download of the missing backing state install.qcow2 was skipped as 'already available'")
    sys.exit(1)
sys.exit(0)
