"""An invalid root-exists letter of check_mode is silently treated as 'reuse' (get_root is performed)."""
import os, sys
sys.path.insert(0, os.getcwd()); sys.path.insert(1, os.path.join(os.getcwd(), "hunt"))
from explore_setup import *
import logging; logging.disable(logging.CRITICAL)

bad = 0
for mode in ["xr", "ar", "if", "rx", "ra"]:
    for root_present in [True, False]:
        STORE.roots = set(); STORE.states = {}; STORE.log = []
        if root_present:
            STORE.roots.add(("vm1", "image1")); STORE.states[("vm1", "image1")] = {"s1"}
        p = base_params()
        p["vms"] = "vm1"
        p["skip_types"] = "nets nets/vms"
        p["check_state_images"] = "s1"
        p["check_mode"] = mode
        relevant = mode[0] if root_present else mode[1]
        try:
            result = ss.check_states(p, make_env())
            outcome = f"returned {result}"
        except exceptions.TestError as error:
            outcome = "TestError"
        print(f"check_mode={mode} root_present={root_present}: {outcome}, backend calls: {STORE.log}")
        if relevant not in "rf" and outcome != "TestError":
            print(f"VIOLATION: invalid policy letter '{relevant}' accepted and handled as reuse")
            bad = 1
        if relevant not in "rf" and STORE.log:
            print(f"VIOLATION: invalid policy touched the backend: {STORE.log}")
            bad = 1
sys.exit(bad)
