"""
C17/C14: a dangling cache link (a state obtained in link mode whose pool file was removed
later - the case download_link explicitly expects and wants to repair) makes the state
listing of the whole image raise FileNotFoundError instead of just not listing that state,
so no state of the image can be checked/got/set any more (and the dead link repair in
download_link is never reached since get() lists the cache states first).
"""
import os, sys, tempfile, shutil
sys.path.insert(0, os.path.join(os.getcwd(), "hunt"))
import _common
from unittest import mock
from virttest.utils_params import Params
from avocado_i2n.states import pool, qcow2, ramfile, setup as ss

tmp = tempfile.mkdtemp(prefix="h10_dead_")
violations = []
try:
    shared, cache, base = (os.path.join(tmp, d) for d in ("shared", "swarm", "vms"))
    vm_id = "vm1-abc"
    os.makedirs(os.path.join(shared, vm_id, "image1"))
    os.makedirs(os.path.join(base, "vm1"))
    open(os.path.join(base, "vm1", "image.qcow2"), "wb").write(b"ROOT")
    for state in ("install", "customize"):
        with open(os.path.join(shared, vm_id, "image1", state + ".qcow2"), "wb") as f:
            f.write(state.encode() * 1000)

    params = Params({"nets": "net1", "vms": "vm1", "images": "image1", "main_vm": "vm1",
                     "states_chain": "nets vms images", "skip_types": "nets nets/vms",
                     "states_images": "qcow2ext", "image_format": "qcow2", "image_name": "image",
                     "qemu_img_binary": "qemu-img", "vms_base_dir": base,
                     "images_base_dir": os.path.join(base, "vm1"),
                     "swarm_pool": cache, "shared_pool": shared, "object_id": vm_id,
                     "nets_gateway": "", "nets_host": "", "pool_scope": "own shared",
                     "check_mode": "rr", "update_pool_timeout": "2"})
    ss.BACKENDS = {"qcow2ext": qcow2.QCOW2ExtBackend}
    env = mock.MagicMock()

    class QemuImgMock():
        """No qemu-img here: same stand-in as in selftests/isolation/test_state_setup.py."""
        def __init__(self, params, root_dir, tag):
            self.image_filename = os.path.join(root_dir, tag)
    mock.patch("avocado_i2n.states.qcow2.QemuImg", QemuImgMock).start()
    env.get_vm.return_value.is_alive.return_value = False
    link_pool = ":" + shared + ";"

    deps = {"customize": "install", "install": ""}
    with mock.patch.object(pool.QCOW2ImageTransfer, "get_dependency",
                           classmethod(lambda cls, state, _: deps[state])):
        # both states were obtained in link mode by an earlier test
        tparams = params.object_params("vm1").object_params("image1")
        tparams.update({"object_type": "nets/vms/images", "get_state": "customize", "get_location": link_pool})
        pool.QCOW2ImageTransfer.get(tparams)
    image_dir = os.path.join(cache, vm_id, "image1")
    print("cache:", sorted(os.listdir(image_dir)))

    # somebody cleans "customize" up in the pool (e.g. unset with pool_scope=shared on another host)
    os.unlink(os.path.join(shared, vm_id, "image1", "customize.qcow2"))

    # now any state check of that image, even for the intact state "install"
    params["check_state_images_vm1"] = "install"
    params["show_location_images_vm1"] = link_pool
    try:
        exists = ss.check_states(params, env)
        print("check_states(install) ->", exists)
        if not exists:
            violations.append("intact state install not found")
    except FileNotFoundError as error:
        violations.append(f"check of intact state 'install' raised {error!r}")
    try:
        states = ss.show_states(params, env)
        print("show_states ->", sorted(states))
        if "customize" in states:
            violations.append("dead link listed as available state")
    except FileNotFoundError as error:
        violations.append(f"show_states raised {error!r}")
finally:
    shutil.rmtree(tmp)

for v in violations:
    print("VIOLATION:", v)
sys.exit(1 if violations else 0)
