"""
C14: uploading a state to a remote pool location that does not have it yet (the normal
case for an upload) fails: compare_remote() - unlike its local sibling compare_local()
which maps a missing file to an empty hash - lets the "file not found" error of the
remote hashing escape, so upload_remote() raises before anything is copied.

The "remote host" is this host: the session runs its commands in a local shell and
the scp stand-in copies locally, everything else is the real code.
"""
import os, sys, tempfile, shutil, subprocess
sys.path.insert(0, os.path.join(os.getcwd(), "hunt"))
import _common
from unittest import mock
from virttest.utils_params import Params
from avocado_i2n.states import pool


class LocalShellSession:
    """Minimal aexpect session stand-in executing in a local shell (stderr and stdout merged like a pty)."""
    def cmd_status_output(self, cmd, *args, **kwargs):
        result = subprocess.run(["bash", "-c", cmd], stdout=subprocess.PIPE, stderr=subprocess.STDOUT, text=True)
        return result.returncode, result.stdout
    def cmd(self, cmd, *args, **kwargs):
        status, output = self.cmd_status_output(cmd)
        assert status == 0, output
        return output


def copy_files_to(host, client, user, password, port, local_path, remote_path, **kwargs):
    shutil.copy(local_path, remote_path)


tmp = tempfile.mkdtemp(prefix="h10_rem_")
violations = []
try:
    remote_pool, cache = os.path.join(tmp, "remote_swarm"), os.path.join(tmp, "swarm")
    rel = os.path.join("vm1-abc", "image1", "customize.qcow2")
    os.makedirs(os.path.dirname(os.path.join(cache, rel)))
    # the remote directory exists already (its creation is a documented TODO)
    os.makedirs(os.path.dirname(os.path.join(remote_pool, rel)))
    with open(os.path.join(cache, rel), "wb") as f:
        f.write(b"CUSTOMIZE" * 1000)
    params = Params({"nets_shell_host": "host2", "nets_file_transfer_client": "scp", "nets_username": "root",
                     "nets_password": "test1234", "nets_file_transfer_port": "22", "update_pool_timeout": "2"})

    with mock.patch.object(pool.TransferOps, "get_session", classmethod(lambda cls, host, params: LocalShellSession())), \
         mock.patch.object(pool.remote, "copy_files_to", copy_files_to):
        # sanity: both present and identical / different is handled
        try:
            pool.TransferOps.upload(os.path.join(cache, rel), "net2:" + os.path.join(remote_pool, rel), params)
        except RuntimeError as error:
            violations.append(f"upload of a new state to the remote pool raised: {str(error).splitlines()[0][:150]}")
        uploaded = os.path.exists(os.path.join(remote_pool, rel))
        print("state in remote pool after upload():", uploaded)
        if uploaded:
            same = open(os.path.join(remote_pool, rel), "rb").read() == open(os.path.join(cache, rel), "rb").read()
            print("byte-identical:", same)
            # second upload must be skipped as identical
            with mock.patch.object(pool.remote, "copy_files_to", mock.Mock(side_effect=AssertionError("copied again"))):
                pool.TransferOps.upload(os.path.join(cache, rel), "net2:" + os.path.join(remote_pool, rel), params)
        # the local sibling for comparison
        local_pool = os.path.join(tmp, "local_pool")
        pool.TransferOps.upload(os.path.join(cache, rel), ":" + os.path.join(local_pool, rel), params)
        print("state in local pool after upload():", os.path.exists(os.path.join(local_pool, rel)))
finally:
    shutil.rmtree(tmp)

for v in violations:
    print("VIOLATION:", v)
sys.exit(1 if violations else 0)
