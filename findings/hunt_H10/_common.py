"""Common bootstrap for the hunt demos (run from the worktree root)."""
import os
import sys
import logging

sys.path.insert(0, os.path.join(os.getcwd(), "selftests", "isolation"))
sys.path.insert(0, os.getcwd())
import warnings
warnings.filterwarnings("ignore")
logging.disable(logging.WARNING)
import avocado_i2n
assert avocado_i2n.__file__.startswith(os.getcwd() + os.sep), avocado_i2n.__file__
logging.disable(logging.NOTSET)
logging.getLogger().setLevel(logging.ERROR)
