import os, sys, itertools
sys.path.insert(0, os.path.join(os.getcwd(), "hunt"))
import _common
from avocado_i2n.cartgraph.node import PrefixTree

class N:
    def __init__(self, name): self.params = {"name": name}
    def __repr__(self): return self.params["name"]

sets = ["S", "T"]
alpha = ["a", "b", "c"]
names = []
for s in sets:
    for l in range(0, 4):
        for seq in itertools.permutations(alpha, l):
            names.append(".".join([s, *seq]))
queries = []
for l in range(1, 4):
    for seq in itertools.permutations(sets + alpha, l):
        queries.append(".".join(seq))
bad = 0
checked = 0
for k in (1, 2, 3):
    for combo in itertools.combinations(names, k):
        for order in itertools.permutations(combo):
            tree = PrefixTree()
            nodes = [N(n) for n in order]
            for n in nodes: tree.insert(n)
            for q in queries:
                got = tree.get(q)
                exp = [n for n in nodes if ("." + q + ".") in ("." + n.params["name"] + ".")]
                checked += 1
                if sorted(map(repr, got)) != sorted(map(repr, exp)) or ((q in tree) != (len(exp) > 0)):
                    bad += 1
                    if bad < 5:
                        print("MISMATCH", order, q, got, exp, q in tree)
print("checked", checked, "bad", bad)
