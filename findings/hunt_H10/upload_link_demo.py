"""
C14: in link mode an upload of a cache entry that already is a link to the very pool
file it should be uploaded to is not skipped as "already available" (like all other
transfer flavours do and like download_link does) but raises ValueError, so the chain
upload of any state derived from a linked state aborts half way.
"""
import os, sys, tempfile, shutil
sys.path.insert(0, os.path.join(os.getcwd(), "hunt"))
import _common
from unittest import mock
from virttest.utils_params import Params
from avocado_i2n.states import pool

tmp = tempfile.mkdtemp(prefix="h10_ul_")
violations = []
try:
    shared, cache = os.path.join(tmp, "shared"), os.path.join(tmp, "swarm")
    vm_id = "vm1-abc"
    os.makedirs(os.path.join(shared, vm_id, "image1"))
    # the pool provides a state "install"
    with open(os.path.join(shared, vm_id, "image1", "install.qcow2"), "wb") as f:
        f.write(b"INSTALL" * 1000)

    params = Params({"vms": "vm1", "images": "image1", "object_id": vm_id,
                     "object_type": "nets/vms/images", "swarm_pool": cache,
                     "update_pool_timeout": "2"})
    link_pool = ":" + shared + ";"

    # backing chain customize -> install (as qemu-img info would report it)
    deps = {"customize": "install", "install": ""}
    with mock.patch.object(pool.QCOW2ImageTransfer, "get_dependency",
                           classmethod(lambda cls, state, _: deps[state])):
        # 1) get the "install" state in link mode: the cache entry becomes a link
        params["get_state"], params["get_location"] = "install", link_pool
        pool.QCOW2ImageTransfer.get(params.copy())
        cache_install = os.path.join(cache, vm_id, "image1", "install.qcow2")
        assert os.path.islink(cache_install), "expected link mode download"
        assert pool.TransferOps.compare(cache_install, link_pool + f"/{vm_id}/image1/install.qcow2", params)

        # 2) a test derives "customize" from it locally (what QCOW2ExtBackend._set does)
        with open(os.path.join(cache, vm_id, "image1", "customize.qcow2"), "wb") as f:
            f.write(b"CUSTOMIZE" * 1000)

        # 3) the new state is set in the same pool: customize is copied, install already matches
        params["set_state"], params["set_location"] = "customize", link_pool
        try:
            pool.QCOW2ImageTransfer.set(params.copy())
        except ValueError as error:
            violations.append(f"chain upload raised instead of skipping the matching link: {error!r}")
    uploaded = os.path.exists(os.path.join(shared, vm_id, "image1", "customize.qcow2"))
    print("customize.qcow2 in pool after set():", uploaded)
finally:
    shutil.rmtree(tmp)

for v in violations:
    print("VIOLATION:", v)
sys.exit(1 if violations else 0)
