"""
C14: a copy mode download into a cache path that is a symbolic link (left there by
an earlier link mode use of a pool) writes THROUGH the link: the file of the
pool the link points to gets overwritten (without its lock), the cache keeps a link.
"""
import os, sys, tempfile, shutil, hashlib
sys.path.insert(0, os.path.join(os.getcwd(), "hunt"))
import _common
from virttest.utils_params import Params
from avocado_i2n.states import pool

tmp = tempfile.mkdtemp(prefix="h10_dl_")
violations = []
try:
    pool_a, pool_b, cache = (os.path.join(tmp, d) for d in ("poolA", "poolB", "swarm"))
    rel = os.path.join("vm1-abc", "image1", "install.qcow2")
    for p, content in ((pool_a, b"A" * 5000), (pool_b, b"B" * 7000)):
        os.makedirs(os.path.dirname(os.path.join(p, rel)))
        with open(os.path.join(p, rel), "wb") as f:
            f.write(content)
    params = Params({"update_pool_timeout": "2"})
    cache_path = os.path.join(cache, rel)

    # earlier run: pool A used in link mode (documented ";" suffix)
    pool.TransferOps.download(cache_path, ":" + pool_a + ";/" + rel, params)
    assert os.path.islink(cache_path)

    # now: the state is fetched from pool B in (default) copy mode
    before = open(os.path.join(pool_a, rel), "rb").read()
    pool.TransferOps.download(cache_path, ":" + pool_b + "/" + rel, params)
    after = open(os.path.join(pool_a, rel), "rb").read()

    print("cache entry still a link:", os.path.islink(cache_path), "->", os.path.realpath(cache_path))
    print("pool A file before: %d x %r, after: %d x %r" % (len(before), before[:1], len(after), after[:1]))
    if before != after:
        violations.append("download from pool B overwrote the state file of pool A through the cache link")
    if os.path.islink(cache_path):
        violations.append("copy mode download left a link in the cache instead of a byte-identical copy")
finally:
    shutil.rmtree(tmp)

for v in violations:
    print("VIOLATION:", v)
sys.exit(1 if violations else 0)
