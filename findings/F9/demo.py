#!/usr/bin/env python
"""
Demo: TestGraph.parse_object_trees() loses setup dependencies depending on the ORDER of nets.

Run from the worktree root:  /venv/bin/python triage/demo.py
Exit code 1 -> defect present, 0 -> defect absent (fixed).

Input (all from the stock sample suite tp_folder/, nothing mocked or patched in the configs):
  nets      = "net5 net1"   (net5 has `only_vm1 = Fedora` in tp_folder/configs/nets.cfg, net1 has no restriction)
  tests     = "only normal\nonly tutorial1\n"
  vm_strs   = {"vm1": "only CentOS,Fedora\n", "vm2": "only Win10\n", "vm3": "only Ubuntu\n"}
              (what the cmd parser produces for `only_vm1=CentOS,Fedora`; `only_vm1=` or no vm restrs behave the same)
"""
import os
import re
import sys

sys.path.insert(0, os.getcwd())
sys.path.insert(1, os.path.join(os.getcwd(), "selftests", "isolation"))

import avocado_i2n  # noqa: E402

assert avocado_i2n.__file__.startswith(os.getcwd() + os.sep), avocado_i2n.__file__
assert os.getcwd() == "/tmp/wt/T1", os.getcwd()

from avocado_i2n.cartgraph import TestGraph  # noqa: E402

TESTS = "only normal\nonly tutorial1\n"
VM_STRS = {"vm1": "only CentOS,Fedora\n", "vm2": "only Win10\n", "vm3": "only Ubuntu\n"}

swallowed = []
_orig = TestGraph.get_and_parse_objects_for_node_and_object


def _spy(self, test_node, test_object, params=None):
    """Record every ValueError which parse_nodes_from_flat_node_and_object will silently swallow."""
    try:
        return _orig(self, test_node, test_object, params=params)
    except ValueError as error:
        swallowed.append(
            f"{test_node.params['name']} (dep_id={test_node.params.get('dep_id')}) "
            f"on {test_object.suffix}: ValueError({error})"
        )
        raise


TestGraph.get_and_parse_objects_for_node_and_object = _spy


def short(name):
    return re.sub(r"\.vms\.(vm\d)\.\S*?\.(CentOS|Fedora|Win10|Ubuntu)\.\S*?nets\.\w+\.(net\d)", r".\1.\2.\3", name)


def build(nets):
    """Same call as CartesianGraphTest.test_graph_sanity & co., only with a different worker set."""
    del swallowed[:]
    graph = TestGraph.parse_object_trees(
        None, TESTS, "", dict(VM_STRS),
        {"nets": nets, "test_timeout": 100, "shared_pool": "/mnt/local/images/shared"},
        with_shared_root=False,
    )
    return graph, list(swallowed)


def setup_closure(node):
    """All transitive setup nodes of a node down to the object root."""
    seen, todo = [], list(node.setup_nodes)
    while todo:
        current = todo.pop()
        if current not in seen:
            seen.append(current)
            todo.extend(current.setup_nodes)
    return sorted(short(n.params["name"]) for n in seen)


def leaves_of(graph):
    result = {}
    for node in graph.nodes:
        if node.is_flat() or "tutorial1" not in node.params["name"]:
            continue
        unmet = []
        for test_object in node.objects:
            if test_object.key != "vms":
                continue
            dependency = test_object.object_typed_params(node.params).get("get")
            if dependency and node.get_dependency(dependency, test_object) is None:
                unmet.append(f"{test_object.suffix} needs '{dependency}'")
        result[short(node.params["name"])] = (node.objects[0].suffix, setup_closure(node), unmet)
    return result


def report(label, graph, errors):
    print(f"=== nets = {label!r}  (workers: {list(graph.workers)})")
    vm_ids = [short(o.id) for o in graph.objects if o.key == "vms"]
    print(f"    vm objects registered in the graph: {sorted(vm_ids)}")
    leaves = leaves_of(graph)
    for name, (net, closure, unmet) in sorted(leaves.items()):
        print(f"    leaf {name}  [worker/net {net}]")
        print(f"        transitive setup: {closure}")
        if unmet:
            print(f"        UNMET DECLARED DEPENDENCIES: {unmet}")
    for error in errors:
        print(f"    swallowed: {short(error)}")
    return leaves, vm_ids


failures = []
restricted_first, errors_rf = build("net5 net1")
leaves_rf, vm_ids_rf = report("net5 net1", restricted_first, errors_rf)
general_first, errors_gf = build("net1 net5")
leaves_gf, vm_ids_gf = report("net1 net5", general_first, errors_gf)
alone = {}
for net in ["net1", "net5"]:
    graph, errors = build(net)
    alone.update(report(net, graph, errors)[0])

print()
for label, leaves in [("net5 net1", leaves_rf), ("net1 net5", leaves_gf)]:
    for name, (net, closure, unmet) in sorted(leaves.items()):
        if unmet:
            failures.append(f"[{label}] {name}: declared dependency without any parent: {unmet}")
        if closure != alone[name][1]:
            failures.append(f"[{label}] {name}: setup {closure} differs from the one of {net} parsed alone {alone[name][1]}")
if {k: v[1] for k, v in leaves_rf.items()} != {k: v[1] for k, v in leaves_gf.items()}:
    failures.append("leaves and their setup differ between the two orders of the same nets")
for label, vm_ids in [("net5 net1", vm_ids_rf), ("net1 net5", vm_ids_gf)]:
    if len(vm_ids) != len(set(vm_ids)):
        failures.append(f"[{label}] duplicated vm objects in graph: {sorted(vm_ids)}")
if errors_rf or errors_gf:
    failures.append(f"{len(errors_rf) + len(errors_gf)} dependency lookups were silently skipped via ValueError")

if failures:
    print("DEFECT PRESENT:")
    for failure in failures:
        print("  - " + failure)
    sys.exit(1)
print("OK: every tutorial1 leaf has the same complete setup chain in both orders and when its net is parsed alone")
sys.exit(0)
