import os, sys, re
sys.path.insert(0, os.getcwd())
import avocado_i2n
from avocado_i2n.cartgraph import TestGraph
def short(name):
    return re.sub(r"\.vms\.(vm\d)\.\S*?\.(CentOS|Fedora|Win10|Win7|Win8|WinXP|Ubuntu)\.[^ ]*?(?=\.vms\.|\.nets\.)", r".\1.\2", name).replace("nets.localhost.", "")
def build(nets, vm_strs, tests, shared_root=False):
    return TestGraph.parse_object_trees(
        None, tests, "", dict(vm_strs), {"nets": nets, "test_timeout": 100, "shared_pool": "/mnt/local/images/shared"},
        with_shared_root=shared_root)
vm_strs = {"vm1": "only Fedora\n", "vm2": "", "vm3": "only Ubuntu\n"}
for nets in ["net3 net5", "net5 net3"]:
    g = build(nets, vm_strs, "only leaves\nonly tutorial_gui\nonly client_noop\n")
    print("===", nets)
    for n in g.nodes:
        if "client_noop" in n.params["name"] and not n.is_flat():
            print("  ", short(n.params["name"]), "->", sorted(short(s.params["name"]) for s in n.setup_nodes))
print("=== shared root, net5 net1")
g = build("net5 net1", {"vm1": "", "vm2": "only Win10\n", "vm3": "only Ubuntu\n"}, "only normal\nonly tutorial1\n", True)
for n in g.nodes:
    if "tutorial1" in n.params["name"] and not n.is_flat():
        print("  ", short(n.params["name"]), "->", sorted(short(s.params["name"]) for s in n.setup_nodes))
