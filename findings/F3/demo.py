#!/usr/bin/env python
"""F3 (C11): conflicting net selections must be rejected in ANY order.

Run from the repository root:  /venv/bin/python <this file>
Exit 1 = property violated (the conflicting selection is silently accepted).
"""
import os
import sys

sys.path.insert(0, os.getcwd())
sys.path.insert(0, os.path.join(os.getcwd(), "selftests", "isolation"))
import unittest_importer  # noqa: F401,E402  (sets up the test suite configuration as the selftests do)
import avocado_i2n.cmd_parser as cmd  # noqa: E402


def accepted(args):
    config = {"params": ["aaa=bbb"] + args}
    try:
        cmd.params_from_cmd(config)
    except ValueError as error:
        return None, str(error)
    return config["param_dict"].get("nets"), None


bad = 0
for args in (["only_nets=cluster1", "nets=net1,net2"], ["nets=net1,net2", "only_nets=cluster1"]):
    nets, error = accepted(args)
    if error is None:
        print(f"VIOLATION: {args} accepted, nets silently became {nets!r}")
        bad += 1
    else:
        print(f"ok: {args} rejected: {error[:70]}...")
# sanity: each form alone is accepted
for args in (["nets=net1,net2"], ["only_nets=cluster1"], ["only_nets=", "only_nets=cluster1"]):
    nets, error = accepted(args)
    if error is not None:
        print(f"UNEXPECTED rejection of {args}: {error}")
        bad += 1
sys.exit(1 if bad else 0)
