#!/bin/bash
# usage: confirm_seed.sh <seed dir with patch.diff, demo*, meta.json> <id> [patch override]
# Confirms in a fresh scratch worktree of /repo HEAD: demo passes on the clean tree, patch applies and compiles,
# demo fails with the patch, the full existing suite passes with the patch (269 passed, 0 failed).
# The seed directory is copied to the same relative place (seeded_out/<k>/) so demos that locate helpers relative to
# themselves keep working.  Result: <seed dir>/confirm.json ; the scratch worktree is removed afterwards.
set -u
src="$1"; id="$2"; patch="${3:-$1/patch.diff}"
k=$(basename "$src")
wt=/tmp/wt/confirm_$id
git -C /repo worktree remove --force $wt 2>/dev/null
git -C /repo worktree add -q --detach $wt HEAD || exit 2
cd $wt
mkdir -p seeded_out/$k
for f in "$src"/*.py "$src"/*.json "$src"/*.cfg "$src"/*.txt; do [ -f "$f" ] && cp "$f" seeded_out/$k/; done
demo=$(ls seeded_out/$k | grep -E '^demo.*\.py$' | head -1)
if [[ "$demo" == *test* ]]; then democmd="/venv/bin/python -m pytest -q -p no:cacheprovider seeded_out/$k/$demo"; else democmd="/venv/bin/python seeded_out/$k/$demo"; fi
PYTHONPATH=$wt:$wt/selftests/isolation timeout 2400 $democmd > demo_clean.log 2>&1; rc_clean=$?
git apply "$patch" || { echo "{\"id\": \"$id\", \"applies\": false}" > $src/confirm.json; cd /; git -C /repo worktree remove --force $wt; exit 1; }
/venv/bin/python -m compileall -q avocado_i2n > /dev/null 2>&1; rc_compile=$?
PYTHONPATH=$wt:$wt/selftests/isolation timeout 2400 $democmd > demo_patched.log 2>&1; rc_patched=$?
PYTHONPATH=$wt:$wt/selftests/isolation timeout 5400 /venv/bin/python -m pytest -q -p no:cacheprovider --timeout=2400 -n ${CONFIRM_JOBS:-8} selftests/isolation > suite.log 2>&1
summary=$(tail -1 suite.log)
passed=$(echo "$summary" | grep -oE '[0-9]+ passed' | grep -oE '[0-9]+')
failed=$(echo "$summary" | grep -oE '[0-9]+ failed' | grep -oE '[0-9]+')
cat > $src/confirm.json <<J
{"id": "$id", "applies": true, "compiles": $([ $rc_compile -eq 0 ] && echo true || echo false),
 "demo_cmd": "$democmd", "demo_rc_clean": $rc_clean, "demo_rc_patched": $rc_patched,
 "suite_passed": ${passed:-0}, "suite_failed": ${failed:-0}, "suite_summary": "$(echo $summary | tr -d '"')",
 "confirmed": $([ $rc_clean -eq 0 ] && [ $rc_patched -ne 0 ] && [ "${passed:-0}" = "269" ] && [ -z "${failed:-}" ] && echo true || echo false)}
J
tail -5 demo_patched.log > $src/demo_patched_tail.log
tail -5 demo_clean.log > $src/demo_clean_tail.log
cd /; git -C /repo worktree remove --force $wt
cat $src/confirm.json
