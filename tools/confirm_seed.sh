#!/bin/bash
# usage: confirm_seed.sh <seed dir with patch.diff, demo*, meta.json> <id>
# Confirms in a fresh scratch worktree: suite passes with the patch, demo fails with it and passes without it.
# Result is written to <seed dir>/confirm.json ; scratch worktree removed afterwards.
set -u
src="$1"; id="$2"; patch="${3:-$1/patch.diff}"
wt=/tmp/wt/confirm_$id
git -C /repo worktree remove --force $wt 2>/dev/null
git -C /repo worktree add -q --detach $wt HEAD || exit 2
cd $wt
demo=$(ls $src | grep -E '^demo' | head -1)
cp $src/$demo $wt/$demo
if [[ "$demo" == *test* ]]; then democmd="/venv/bin/python -m pytest -q -p no:cacheprovider $demo"; else democmd="/venv/bin/python $demo"; fi
PYTHONPATH=$wt timeout 1800 $democmd > demo_clean.log 2>&1; rc_clean=$?
git apply $patch || { echo "{\"id\": \"$id\", \"applies\": false}" > $src/confirm.json; cd /; git -C /repo worktree remove --force $wt; exit 1; }
/venv/bin/python -m compileall -q avocado_i2n > /dev/null 2>&1; rc_compile=$?
PYTHONPATH=$wt timeout 1800 $democmd > demo_patched.log 2>&1; rc_patched=$?
PYTHONPATH=$wt timeout 3600 /venv/bin/python -m pytest -q -p no:cacheprovider --timeout=1800 -n 8 selftests/isolation > suite.log 2>&1
summary=$(tail -1 suite.log)
passed=$(echo "$summary" | grep -oE '[0-9]+ passed' | grep -oE '[0-9]+')
failed=$(echo "$summary" | grep -oE '[0-9]+ failed' | grep -oE '[0-9]+')
cat > $src/confirm.json <<J
{"id": "$id", "applies": true, "compiles": $([ $rc_compile -eq 0 ] && echo true || echo false),
 "demo_cmd": "$democmd", "demo_rc_clean": $rc_clean, "demo_rc_patched": $rc_patched,
 "suite_passed": ${passed:-0}, "suite_failed": ${failed:-0}, "suite_summary": "$(echo $summary | tr -d '"')",
 "confirmed": $([ $rc_clean -eq 0 ] && [ $rc_patched -ne 0 ] && [ "${passed:-0}" = "269" ] && [ -z "${failed:-}" ] && echo true || echo false)}
J
tail -5 demo_patched.log > $src/demo_patched_tail.log
cd /; git -C /repo worktree remove --force $wt
cat $src/confirm.json
