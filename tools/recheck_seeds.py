#!/venv/bin/python
"""Re-run all property checks against every kept seed on the current /repo HEAD and refresh meta.json's detection record.

usage: recheck_seeds.py [id ...]   (default: all of /verif/seeded)
A patch that no longer applies on HEAD is reported (it must be rebased by hand; fix commits may have moved its context).
"""
import glob
import json
import os
import subprocess
import sys
from concurrent.futures import ThreadPoolExecutor

ROOT = os.path.dirname(os.path.dirname(os.path.abspath(__file__)))


def sh(cmd):
    return subprocess.run(cmd, shell=True, capture_output=True, text=True)


def one(sid):
    d = os.path.join(ROOT, "seeded", sid)
    wt = f"/tmp/wt/recheck_{sid}"
    sh(f"git -C /repo worktree remove --force {wt}")
    if sh(f"git -C /repo worktree add -q --detach {wt} HEAD").returncode != 0:
        return sid, "cannot create worktree", {}
    try:
        r = sh(f"cd {wt} && git apply {d}/patch.diff")
        if r.returncode != 0:
            return sid, "PATCH DOES NOT APPLY ON HEAD", {}
        detected = {}
        for mod in sorted(glob.glob(os.path.join(ROOT, "i2nsa/props/c[0-9][0-9].py"))):
            pid = os.path.basename(mod)[:-3].upper()
            out = sh(f"cd {ROOT} && I2NSA_REPO={wt} I2NSA_NO_EVIDENCE=1 /venv/bin/python -m i2nsa check {pid}")
            broken = [l.strip()[len("broken: "):] for l in out.stdout.splitlines() if l.strip().startswith("broken: ")]
            if out.returncode == 1:
                detected[pid] = [b[:300] for b in broken]
            elif out.returncode == 2:
                detected[pid] = ["ANALYSIS-ERROR: " + out.stdout.strip().splitlines()[0][:300]]
    finally:
        sh(f"git -C /repo worktree remove --force {wt}")
    mp = os.path.join(d, "meta.json")
    meta = json.load(open(mp))
    meta["detected_by"] = detected
    meta["detected_by_own_property_check"] = meta.get("property") in detected
    meta["rechecked_on_head"] = sh("git -C /repo rev-parse --short HEAD").stdout.strip()
    json.dump(meta, open(mp, "w"), indent=1)
    return sid, "ok", detected


def main():
    ids = sys.argv[1:] or sorted(os.listdir(os.path.join(ROOT, "seeded")))
    with ThreadPoolExecutor(max_workers=4) as ex:
        for sid, status, det in ex.map(one, ids):
            print(sid, status, sorted(det))


if __name__ == "__main__":
    main()
