#!/venv/bin/python
"""Regenerate /verif/MANIFEST.json from the property modules (DECIDED / NOT_DECIDED / EXPLANATION)."""
import importlib
import json
import os
import sys

ROOT = os.path.dirname(os.path.dirname(os.path.abspath(__file__)))
sys.path.insert(0, ROOT)

TECH = {
    "C01": "path-sensitive guard/dominance rules over the traversal loop, finite-domain decision-table extraction, structural definitions of the predicates/views used as atoms (ast)",
    "C02": "loop-progress path enumeration, predicate/filter sibling agreement, pairing of placeholder and resolution (ast)",
    "C03": "suspension-window (await) analysis between run decision and placeholder, field ownership, decision tables (ast)",
    "C04": "await-window atomicity of test-and-set, who-may-write ownership, release pairing on all exits (ast)",
    "C05": "who-may-call/effect ownership of removal requests, decision-table extraction of sync and clean decisions (ast)",
    "C06": "edge-symmetry ownership, validate() coverage and raise-table extraction, root attachment counts, clone/registration provenance, per-worker symmetry of the eager parse (ast)",
    "C07": "def-use provenance of dependency parameters, clone count and state renaming rules, error-discipline of the flat-node expansion, per-worker symmetry (ast)",
    "C08": "parameter provenance (worker never re-bound), foreign-worker raise rows, def-use of location/access parameters (ast)",
    "C09": "bridging symmetry/aliasing ownership, single parsing entry point call-graph rule, position-independence and failure isolation of the per-worker parse, sibling agreement of restriction updates (ast)",
    "C10": "decision-table extraction of should_rerun, uid/def-use ordering, verdict quantifier shape (ast)",
    "C11": "tokenizer classification table extraction, raise-before-use ordering, override step order (ast)",
    "C12": "exhaustive finite-domain decision-table extraction of check/get/set/unset/push/pop vs documented table, yield-order rule of the object walk, per-object parameter provenance (ast)",
    "C13": "guard dominance of every transport call by the scope filter, sibling agreement of the four pool operations, constant ordering (ast)",
    "C14": "lexical lock discipline (mutators inside image_lock), transitive no-nested-lock call-graph rule, compare-then-copy guards, whole-file comparison provenance, lock typestate of image_lock (ast)",
    "C15": "flag-operation ordering and argument provenance in the update tool (ast)",
    "C16": "writer/reader key agreement of the edge register, additive-trie ownership, sibling agreement of lookup and membership (ast)",
    "C17": "builtin type-lite of the cross-image accumulator, intersection-only dataflow, regular-language relations of the snapshot regexes (Brzozowski derivatives)",
    "C18": "count of add_interface per path, registry-key coherence around ip stores, allocation typestate (ast)",
    "C19": "mirror pairing of end-point parameter writes, peer-variant table, symmetry truth table of connects_nodes (ast)",
    "C20": "chain-loop shape (no early exit, one call per step, failure sets code and continues), per worker x vm node count, step table of all published tools, return-value (status) propagation through reused tools (ast)",
}


def main():
    props = [json.loads(l) for l in open(os.path.join(ROOT, "properties.jsonl"))]
    checks, na, served = [], [], []
    for p in props:
        pid = p["id"]
        try:
            mod = importlib.import_module(f"i2nsa.props.{pid.lower()}")
        except ModuleNotFoundError:
            na.append({"property_id": pid, "reason": "check not built yet (work in progress, see DESIGN.md)"})
            continue
        served.append(pid)
        decided = getattr(mod, "DECIDED", [])
        notdec = getattr(mod, "NOT_DECIDED", [])
        checks.append({
            "property_id": pid,
            "quick_cmd": f"/venv/bin/python -m i2nsa check {pid} --tier quick",
            "thorough_cmd": f"/venv/bin/python -m i2nsa check {pid} --tier thorough",
            "evidence_file": f"/verif/evidence/{pid}.json",
            "replay_cmd_template": "/venv/bin/python -m i2nsa explain {path}",
            "engine": "i2nsa",
            "level_claimed": {
                "category": "other",
                "text": (getattr(mod, "EXPLANATION", "") + " Decided clauses (each a necessary condition, decided on every path "
                         "and for every input from the source): " + "; ".join(decided) + ". NOT decided (behaviour over runtime "
                         "quantities, honest not-applicable for static analysis): " + "; ".join(notdec) + "."),
                "design_ref": f"DESIGN.md §5 {pid}",
            },
            "level_note": "Static analysis only: decides the listed structural clauses, not the behavioural property as a whole. "
                          "Trusted base: CPython ast, the engine in /verif/i2nsa (path enumerator, formula normaliser, rule code), the hand-written "
                          "reference tables; assumes cooperative single-threaded asyncio and no monkey-patching beyond the listed writers. "
                          "Thorough tier additionally self-tests every rule with breaker/preserver variants of the current tree and records a sampled sensitivity sweep (generic one-site edits of the analysed functions: how many are noticed) in the evidence.",
            "technique": TECH[pid],
        })
    manifest = {
        "version": 1,
        "setup_cmd": "true",
        "hooks": {
            "guard": "INTRA2NET_AVOCADO_I2N_VERIF",
            "enable": "none needed: static analysis reads /repo sources at call time; no instrumentation exists in /repo",
            "baseline_off_cmd": "cd /repo && /venv/bin/python -m pytest -ra -q -p no:cacheprovider --timeout=900 --continue-on-collection-errors",
            "source_commits": [],
            "add_only": True,
        },
        "engines": [{"name": "i2nsa", "path": "/verif/i2nsa", "serves_properties": served,
                     "kind_free_text": "repository-specific static analysis over Python ast (stdlib only): path enumeration, guard "
                                       "implication by truth table, finite-domain decision-table extraction, ownership scans, await windows"}],
        "checks": checks,
        "notes": "All checks are static (no code of /repo is imported or executed). Every property is claimed at clause level only; the "
                 "per-check level_claimed.text lists what is and is not decided. Repairs of genuine defects are 'fix:' commits in /repo "
                 "(see known_findings.json); known findings print KNOWN-FINDING lines and exit 0.",
        "not_applicable": na,
    }
    with open(os.path.join(ROOT, "MANIFEST.json"), "w") as fd:
        json.dump(manifest, fd, indent=1)
    print(f"{len(checks)} checks, {len(na)} not applicable")


if __name__ == "__main__":
    main()
