#!/bin/bash
# Runs every behaviour-preserving refactoring under /verif/preserving/ through all quick checks (scratch worktrees of /repo HEAD).
# A report on any of them is a false alarm of the checker.  usage: preserve_check.sh [jobs] [id prefix, e.g. PW4_]
jobs=${1:-6}
pat=${2:-}
out=/tmp/wt/preserve_results; rm -rf $out; mkdir -p $out
one() { d=$1; id=$(basename $d); /verif/tools/seedcheck.sh $d/patch.diff > $out/$id.tmp 2>&1; grep -E "^== C[0-9]+ rc=[12]|broken:|ANALYSIS-ERROR|does not apply" $out/$id.tmp | cut -c1-300 > $out/$id.txt; [ -s $out/$id.txt ] || echo SILENT > $out/$id.txt; }
export -f one; export out
ls -d /verif/preserving/${pat}*/ | xargs -P $jobs -I{} bash -c 'one {}'
n=$(ls $out/*.txt | wc -l); s=$(grep -l SILENT $out/*.txt | wc -l)
echo "preserving refactorings: $n, silent: $s, false alarms: $((n-s))"
for f in $out/*.txt; do grep -q SILENT $f || { echo "### $(basename $f .txt)"; cat $f; }; done
