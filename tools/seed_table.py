#!/venv/bin/python
"""Regenerate the seeded-changes table in DESIGN.md from /verif/seeded/*/meta.json."""
import glob
import json
import os

ROOT = os.path.dirname(os.path.dirname(os.path.abspath(__file__)))


def main():
    rows = []
    for mp in sorted(glob.glob(os.path.join(ROOT, "seeded", "*", "meta.json"))):
        m = json.load(open(mp))
        own = m.get("property")
        det = m.get("detected_by", {})
        rules = []
        for pid, msgs in sorted(det.items()):
            for msg in msgs:
                rules.append(f"{msg.split(' at ')[0]}")
        summ = " ".join(str(m.get("summary") or "").split())
        if len(summ) > 150:
            summ = summ[:147] + "..."
        conf = m.get("confirmation", {})
        rows.append((m["id"], own, summ.replace("|", "/"), "yes" if conf.get("confirmed") else "NO",
                     ", ".join(sorted(set(rules))[:6]) or "— (missed)", m.get("first_detected") or "?"))
    lines = ["| seed | property | change | confirmed | reported by | when |", "|------|----------|--------|-----------|-------------|------|"]
    for r in rows:
        lines.append("| " + " | ".join(r) + " |")
    n = len(rows)
    caught = sum(1 for r in rows if not r[4].startswith("—"))
    first = sum(1 for r in rows if r[5].startswith(("first", "yes")))
    cross = sum(1 for r in rows if r[5].startswith("cross"))
    lines.append("")
    lines.append(f"{n} kept seeds; {caught} reported by their own property's final check; {first} of them already on the first run by their own property's check, "
                 f"{cross} on the first run only by another property's check (the rule was then wired into the own property), "
                 f"{caught - first - cross} only after the stated strengthening (rule missing or planned but unwritten at the time); {n - caught} still missed.")
    p = os.path.join(ROOT, "DESIGN.md")
    s = open(p).read()
    a, b = s.index("<!-- SEED-TABLE-BEGIN -->"), s.index("<!-- SEED-TABLE-END -->")
    s = s[:a] + "<!-- SEED-TABLE-BEGIN -->\n" + "\n".join(lines) + "\n" + s[b:]
    open(p, "w").write(s)
    print(lines[-1])


if __name__ == "__main__":
    main()
