#!/bin/bash
# usage: seedcheck.sh <patch.diff> [property ids...]  -- applies the patch to /repo, runs the quick checks, reverts.
set -u
patch="$1"; shift
props="${*:-}"
cd /repo || exit 2
if ! git diff --quiet -- avocado_i2n; then echo "repo dirty"; exit 2; fi
git apply "$patch" || { echo "patch does not apply"; exit 2; }
trap 'git -C /repo checkout -- avocado_i2n' EXIT
cd /verif
if [ -z "$props" ]; then props=$(ls i2nsa/props/c[0-9][0-9].py | sed 's/.*\/c\([0-9]*\).py/C\1/'); fi
for p in $props; do
  out=$(I2NSA_NO_EVIDENCE=1 /venv/bin/python -m i2nsa check $p 2>&1); rc=$?
  echo "== $p rc=$rc"
  echo "$out" | grep -E "^\s+broken:|ANALYSIS-ERROR" | cut -c1-400
done
