#!/bin/bash
# usage: seedcheck.sh <patch.diff> [property ids...]
# Applies the patch in a private scratch worktree of /repo HEAD and runs the quick checks against it
# (I2NSA_REPO points the engine at the scratch tree; /repo itself is never touched), then removes the worktree.
set -u
patch="$1"; shift
props="${*:-}"
wt=/tmp/wt/seedcheck_$$
git -C /repo worktree add -q --detach $wt HEAD || exit 2
trap 'git -C /repo worktree remove --force '$wt' 2>/dev/null' EXIT
( cd $wt && git apply "$patch" ) || { echo "patch does not apply"; exit 2; }
cd /verif
if [ -z "$props" ]; then props=$(ls i2nsa/props/c[0-9][0-9].py | sed 's/.*\/c\([0-9]*\).py/C\1/'); fi
for p in $props; do
  out=$(I2NSA_REPO=$wt I2NSA_NO_EVIDENCE=1 /venv/bin/python -m i2nsa check $p 2>&1); rc=$?
  echo "== $p rc=$rc"
  echo "$out" | grep -E "^\s+broken:|ANALYSIS-ERROR" | cut -c1-400
done
