#!/bin/bash
# usage: first_run.sh <seed dir> <id> : records which checks report a seed BEFORE any strengthening (honest first-run record)
src="$1"; id="$2"
out=/tmp/wt/firstrun/$id.txt
[ -f "$out" ] && { echo "$id already recorded"; cat $out | head -5; exit 0; }
/verif/tools/seedcheck.sh $src/patch.diff > $out.tmp 2>&1
grep -B1 -E "^\s+broken:|ANALYSIS-ERROR" $out.tmp | grep -E "^== |broken:|ANALYSIS" | cut -c1-260 > $out
[ -s $out ] || echo "MISSED (no check reports it)" > $out
echo "### $id"; cat $out
