#!/venv/bin/python
"""Discovery aid (not a check): cross-check sibling functions for conditions and calls most of them have and some lack.

Families are functions implementing one interface or one operation for different cases (get/set/unset/push/pop of the state setup, the
local/remote/link transfer operations, the _show/_get/_set/_unset of the backends, setup- and cleanup-side twins of the node).  For each
family the tested conditions (atoms of every `if`/`while`/conditional expression) and the names of called functions are collected, the
family-specific tokens are replaced by a placeholder, and every atom / call that at least `--quorum` of the siblings have and a sibling
lacks is printed.  Each line is a question for a reader ("why does push_states not test skip_types?"), nothing more; confirmed answers
became rules (C12.13 skip guards, C13.8v vm roots, ...).  usage: sibling_scan.py [--quorum 0.6]
"""
import ast
import re
import sys

sys.path.insert(0, "/verif")
from i2nsa import norm  # noqa: E402
from i2nsa.repo import Repo, call_name  # noqa: E402

FAMILIES = {
    "state operations": ("states/setup.py", ["show_states", "check_states", "get_states", "set_states", "unset_states", "push_states", "pop_states"],
                         ["show", "check", "get", "set", "unset", "push", "pop"]),
    "sourced backend": ("states/pool.py", ["SourcedStateBackend.show", "SourcedStateBackend.get", "SourcedStateBackend.set", "SourcedStateBackend.unset"], ["show", "get", "set", "unset"]),
    "root backend": ("states/pool.py", ["RootSourcedStateBackend.check_root", "RootSourcedStateBackend.get_root", "RootSourcedStateBackend.set_root", "RootSourcedStateBackend.unset_root"],
                     ["check", "get", "set", "unset"]),
    "image transport": ("states/pool.py", ["QCOW2ImageTransfer.show", "QCOW2ImageTransfer.get", "QCOW2ImageTransfer.set", "QCOW2ImageTransfer.unset"], ["show", "get", "set", "unset"]),
    "image transport roots": ("states/pool.py", ["QCOW2ImageTransfer.check_root", "QCOW2ImageTransfer.get_root", "QCOW2ImageTransfer.set_root", "QCOW2ImageTransfer.unset_root"],
                              ["check", "get", "set", "unset"]),
    "local transfers": ("states/pool.py", ["TransferOps.download_local", "TransferOps.upload_local", "TransferOps.delete_local"], ["download", "upload", "delete"]),
    "remote transfers": ("states/pool.py", ["TransferOps.download_remote", "TransferOps.upload_remote", "TransferOps.delete_remote", "TransferOps.list_remote", "TransferOps.compare_remote"],
                         ["download", "upload", "delete", "list", "compare"]),
    "link transfers": ("states/pool.py", ["TransferOps.download_link", "TransferOps.upload_link", "TransferOps.delete_link"], ["download", "upload", "delete"]),
    "transfer routing": ("states/pool.py", ["TransferOps.list_paths", "TransferOps.compare", "TransferOps.download", "TransferOps.upload", "TransferOps.delete"],
                         ["list_paths", "list", "compare", "download", "upload", "delete"]),
    "qcow2ext ops": ("states/qcow2.py", ["QCOW2ExtBackend._show", "QCOW2ExtBackend._get", "QCOW2ExtBackend._set", "QCOW2ExtBackend._unset"], ["show", "get", "set", "unset"]),
    "qcow2 ops": ("states/qcow2.py", ["QCOW2Backend.show", "QCOW2Backend.get", "QCOW2Backend.set", "QCOW2Backend.unset"], ["show", "get", "set", "unset"]),
    "qcow2vt ops": ("states/qcow2.py", ["QCOW2VTBackend.show", "QCOW2VTBackend.get", "QCOW2VTBackend.set", "QCOW2VTBackend.unset"], ["show", "get", "set", "unset"]),
    "ramfile ops": ("states/ramfile.py", ["RamfileBackend._show", "RamfileBackend._get", "RamfileBackend._set", "RamfileBackend._unset"], ["show", "get", "set", "unset"]),
    "ramfile roots": ("states/ramfile.py", ["RamfileBackend.check_root", "RamfileBackend.get_root", "RamfileBackend.set_root", "RamfileBackend.unset_root"], ["check", "get", "set", "unset"]),
    "node twins": ("cartgraph/node.py", ["TestNode.is_setup_ready", "TestNode.is_cleanup_ready"], ["setup", "cleanup"]),
    "pick twins": ("cartgraph/node.py", ["TestNode.pick_parent", "TestNode.pick_child"], ["parent", "child", "setup", "cleanup"]),
    "drop twins": ("cartgraph/node.py", ["TestNode.drop_parent", "TestNode.drop_child"], ["parent", "child", "setup", "cleanup"]),
    "start/finish": ("cartgraph/node.py", ["TestNode.is_started", "TestNode.is_finished"], ["started", "finished"]),
    "decisions": ("cartgraph/node.py", ["TestNode.default_run_decision", "TestNode.default_clean_decision", "TestNode.should_rerun"], ["run", "clean", "rerun"]),
    "traverse/reverse": ("cartgraph/graph.py", ["TestGraph.traverse_node", "TestGraph.reverse_node"], ["traverse", "reverse", "run", "clean"]),
    "graph lookups": ("cartgraph/graph.py", ["TestGraph.get_nodes", "TestGraph.get_objects", "TestGraph.get_nodes_by_restr", "TestGraph.get_objects_by_restr"], ["nodes", "objects", "node", "object"]),
    "flagging": ("cartgraph/graph.py", ["TestGraph.flag_children", "TestGraph.flag_intersection"], ["children", "intersection"]),
    "update_restrs": ("cartgraph/node.py", ["TestNode.update_restrs"], []),
    "manual state tools": ("intertest_setup.py", ["check", "pop", "push", "get", "set", "unset"], ["check", "pop", "push", "get", "set", "unset"]),
    "manual reuse tools": ("intertest_setup.py", ["collect", "create", "clean"], ["collect", "create", "clean"]),
    "manual vm tools": ("intertest_setup.py", ["boot", "download", "upload", "shutdown", "start", "stop"], ["boot", "download", "upload", "shutdown", "start", "stop", "Boot", "Download", "Upload", "Shutdown"]),
    "tunnel ends": ("vmnet/tunnel.py", ["VMTunnel.connects_nodes.<locals>.on_the_left", "VMTunnel.connects_nodes.<locals>.on_the_right"], ["left", "right"]),
}


def profile(fn: ast.AST, tokens: list[str]) -> tuple[set, set]:
    pat = re.compile(r"(?<![A-Za-z])(" + "|".join(sorted(map(re.escape, tokens), key=len, reverse=True)) + r")(?![a-z])") if tokens else None

    def gen(t: str) -> str:
        return pat.sub("OP", t) if pat else t

    atoms, calls = set(), set()
    for n in ast.walk(fn):
        if isinstance(n, (ast.If, ast.While, ast.IfExp)):
            for a in norm.atoms_of(norm.formula(n.test)):
                atoms.add(gen(a))
        elif isinstance(n, ast.Assert):
            for a in norm.atoms_of(norm.formula(n.test)):
                atoms.add("assert " + gen(a))
        elif isinstance(n, ast.Call):
            nm = call_name(n)
            if nm and not ast.unparse(n.func).startswith(("logging.", "log.")):
                calls.add(gen(nm))
        elif isinstance(n, ast.Raise) and n.exc is not None:
            e = n.exc.func if isinstance(n.exc, ast.Call) else n.exc
            calls.add("raise " + ast.unparse(e))
    return atoms, calls


def main() -> None:
    quorum = float(sys.argv[sys.argv.index("--quorum") + 1]) if "--quorum" in sys.argv else 0.6
    repo = Repo(__import__("os").environ.get("I2NSA_REPO", "/repo"))
    n_q = 0
    for fam, (mod, names, tokens) in FAMILIES.items():
        profs = {}
        for nm in names:
            try:
                profs[nm] = profile(repo.func(f"{mod}:{nm}").node, tokens)
            except Exception as e:  # a vanished sibling is worth a line, not a crash
                print(f"[{fam}] {nm}: not found ({e})")
        if len(profs) < 2:
            continue
        for kind, idx in (("condition", 0), ("call", 1)):
            allv = set().union(*(p[idx] for p in profs.values()))
            for a in sorted(allv):
                have = [nm for nm, p in profs.items() if a in p[idx]]
                lack = [nm for nm in profs if nm not in have]
                if lack and len(have) / len(profs) >= quorum:
                    n_q += 1
                    print(f"[{fam}] {kind} `{a[:110]}`: in {len(have)}/{len(profs)}, NOT in {', '.join(x.split('.')[-1] for x in lack)}")
    print(f"{n_q} questions")


if __name__ == "__main__":
    main()
