#!/venv/bin/python
"""Copy a confirmed seed into /verif/seeded/<id>/ and record which checks report it.

usage: collect_seed.py <seed dir> <id> [--patch <rebased patch>] [--first-detected yes|no|after:<what was strengthened>]

Applies the patch in a scratch worktree of /repo HEAD, runs every property check against it (quick tier, no evidence written), and writes meta.json: the seeder's meta, the confirmation record (confirm.json from confirm_seed.sh) and
the detection results.
"""
import argparse
import glob
import json
import os
import shutil
import subprocess
import sys

ROOT = os.path.dirname(os.path.dirname(os.path.abspath(__file__)))


def sh(cmd, **kw):
    return subprocess.run(cmd, shell=True, capture_output=True, text=True, **kw)


def main():
    ap = argparse.ArgumentParser()
    ap.add_argument("src")
    ap.add_argument("id")
    ap.add_argument("--patch")
    ap.add_argument("--first-detected", default="")
    ap.add_argument("--note", default="")
    a = ap.parse_args()
    patch = a.patch or os.path.join(a.src, "patch.diff")
    wt = f"/tmp/wt/collect_{os.getpid()}"
    if sh(f"git -C /repo worktree add -q --detach {wt} HEAD").returncode != 0:
        sys.exit("cannot create scratch worktree")
    detected = {}
    try:
        r = sh(f"cd {wt} && git apply {patch}")
        if r.returncode != 0:
            sys.exit(f"patch does not apply: {r.stderr}")
        for mod in sorted(glob.glob(os.path.join(ROOT, "i2nsa/props/c[0-9][0-9].py"))):
            pid = os.path.basename(mod)[:-3].upper()
            out = sh(f"cd {ROOT} && I2NSA_REPO={wt} I2NSA_NO_EVIDENCE=1 /venv/bin/python -m i2nsa check {pid}")
            broken = [l.strip()[len("broken: "):] for l in out.stdout.splitlines() if l.strip().startswith("broken: ")]
            if out.returncode == 1:
                detected[pid] = [b[:300] for b in broken]
            elif out.returncode == 2:
                detected[pid] = ["ANALYSIS-ERROR: " + out.stdout.strip().splitlines()[0][:300]]
    finally:
        sh(f"git -C /repo worktree remove --force {wt}")
    dst = os.path.join(ROOT, "seeded", a.id)
    os.makedirs(dst, exist_ok=True)
    shutil.copy(patch, os.path.join(dst, "patch.diff"))
    for f in os.listdir(a.src):
        if f.startswith("demo") and f.endswith(".py"):
            shutil.copy(os.path.join(a.src, f), os.path.join(dst, f))
    meta = {}
    mp = os.path.join(a.src, "meta.json")
    if os.path.exists(mp):
        try:
            meta = json.load(open(mp))
        except Exception:
            meta = {"raw_meta": open(mp).read()[:2000]}
    conf = {}
    cp = os.path.join(a.src, "confirm.json")
    if os.path.exists(cp):
        try:
            conf = json.load(open(cp))
        except Exception:
            conf = {}
    prop = meta.get("property") or a.id.split("_")[0].replace("W2", "")
    out = {
        "id": a.id,
        "property": prop,
        "summary": meta.get("summary"),
        "needs": meta.get("needs"),
        "files": meta.get("files"),
        "patch_relative_to": "current /repo HEAD (fix commits applied)" if a.patch else meta.get("patch_relative_to", "pinned commit 02a3fa1 (applies on HEAD)"),
        "confirmation": conf,
        "what_i_ran": "tools/confirm_seed.sh: fresh scratch worktree; demo on clean tree (must pass), patch applied, compileall, demo (must fail), "
                      "full selftests/isolation suite with the patch (269 pass required); then tools/collect_seed.py: patch applied in a scratch worktree of /repo HEAD, all 20 quick checks against it (I2NSA_REPO)",
        "detected_by": detected,
        "detected_by_own_property_check": prop in detected,
        "first_detected": a.first_detected,
        "note": a.note,
    }
    json.dump(out, open(os.path.join(dst, "meta.json"), "w"), indent=1)
    print(a.id, "detected by", sorted(detected), "| own property:", prop in detected)


if __name__ == "__main__":
    main()
