#!/venv/bin/python
"""Print a function as the rules see it (after idiom normalisation): showfn.py <module:qualname> [raw]"""
import ast, sys, os
sys.path.insert(0, os.path.dirname(os.path.dirname(os.path.abspath(__file__))))
from i2nsa.repo import Repo
from i2nsa import canon
r = Repo()
f = r.func(sys.argv[1])
print(canon._RAW_UNPARSE(f.node))
